#!/usr/bin/env python3
"""Confirms a seeded mutation and runs the property's check against it.

usage: tools/seedcheck.py <PROPERTY> <dir with patch.diff, demo.py[, README.txt]> [--keep <name>] [--tier quick|thorough] [--also C05,C13]

Steps (all in a scratch copy of /repo outside /repo and /verif, removed afterwards):
 1. patch applies; 2. the repository's 31 tests still pass with it; 3. demo.py fails with the patch and passes without;
 4. ./vcheck <PROPERTY> is run with PYTHONPATH pointing at the patched sources (evidence/replays redirected) - exit 1 + VIOLATION = detected.
With --keep the mutation is stored as /verif/seeded/<name>/ (patch.diff, demo.py, meta.json)."""
import argparse
import json
import os
import shutil
import subprocess
import sys
import tempfile
import time

ROOT = os.path.dirname(os.path.dirname(os.path.abspath(__file__)))


def sh(cmd, env=None, cwd=None, timeout=3600):
    p = subprocess.run(cmd, shell=True, env=env, cwd=cwd, capture_output=True, text=True, timeout=timeout)
    return p.returncode, p.stdout + p.stderr


def main():
    ap = argparse.ArgumentParser()
    ap.add_argument('pid'); ap.add_argument('mutdir'); ap.add_argument('--keep'); ap.add_argument('--tier', default='quick'); ap.add_argument('--also', default='')
    ap.add_argument('--skip-tests', action='store_true')
    a = ap.parse_args()
    base = tempfile.mkdtemp(prefix='kyupy-seed-')
    res = {'property': a.pid, 'mutation': os.path.abspath(a.mutdir)}
    try:
        work = os.path.join(base, 'repo')
        shutil.copytree('/repo', work, ignore=shutil.ignore_patterns('.git', '__pycache__', '*.egg-info', '.pytest_cache'))
        rc, out = sh(f'patch -p1 --no-backup-if-mismatch < {os.path.abspath(a.mutdir)}/patch.diff', cwd=work)
        res['patch_applies'] = rc == 0
        if rc != 0:
            res['error'] = out[-500:]; print(json.dumps(res, indent=1)); return 2
        env = dict(os.environ, PYTHONPATH=os.path.join(work, 'src'))
        if not a.skip_tests:
            rc, out = sh('/venv/bin/python -m pytest -q -p no:cacheprovider --timeout=900 tests 2>&1 | tail -3', env=env, cwd=work)
            res['tests_with_patch'] = out.strip().splitlines()[-1] if out.strip() else ''
            res['tests_pass'] = ' passed' in out and 'failed' not in out and 'error' not in out.lower()
        demo = os.path.join(os.path.abspath(a.mutdir), 'demo.py')
        rc1, out1 = sh(f'/venv/bin/python {demo}', env=env, cwd=work)
        rc0, out0 = sh(f'/venv/bin/python {demo}', env=dict(os.environ, PYTHONPATH='/repo/src'), cwd='/repo')
        res['demo_fails_with_patch'] = rc1 != 0
        res['demo_passes_without'] = rc0 == 0
        res['demo_output_with_patch'] = out1[-300:]
        checks = [a.pid] + [x for x in a.also.split(',') if x]
        res['checks'] = {}
        for pid in checks:
            e2 = dict(env, VERIF_EVIDENCE_DIR=os.path.join(base, 'ev'), VERIF_REPLAY_DIR=os.path.join(base, 'rp'))
            t = time.time()
            rc, out = sh(f'{ROOT}/vcheck {pid} --tier {a.tier}', env=e2, cwd=ROOT, timeout=7200)
            viol = [l for l in out.splitlines() if l.startswith('VIOLATION')]
            keys = [l.strip()[:300] for l in out.splitlines() if l.strip().startswith('key=')]
            res['checks'][pid] = {'exit': rc, 'violations': len(viol), 'first': keys[:2], 'wall_s': round(time.time() - t, 1),
                                  'harness_errors': [l[:300] for l in out.splitlines() if 'HARNESS-ERROR' in l][:2]}
        res['detected'] = any(v['exit'] == 1 and v['violations'] for v in res['checks'].values())
        ok = res['patch_applies'] and res.get('tests_pass', True) and res['demo_fails_with_patch'] and res['demo_passes_without']
        res['confirmed'] = ok
        if a.keep and ok:
            d = os.path.join(ROOT, 'seeded', a.keep)
            os.makedirs(d, exist_ok=True)
            if os.path.abspath(a.mutdir) != os.path.abspath(d):
                shutil.copy(os.path.join(a.mutdir, 'patch.diff'), d)
                shutil.copy(demo, d)
                if os.path.exists(os.path.join(a.mutdir, 'README.txt')): shutil.copy(os.path.join(a.mutdir, 'README.txt'), d)
            prev = {}
            if os.path.exists(os.path.join(d, 'meta.json')):
                try: prev = json.load(open(os.path.join(d, 'meta.json')))
                except Exception: prev = {}
            readme = ''
            if os.path.exists(os.path.join(d, 'README.txt')): readme = open(os.path.join(d, 'README.txt')).read()
            elif prev: readme = prev.get('breaks', '')
            meta = {'property': a.pid, 'breaks': readme.strip(), 'needs_to_manifest': 'see "breaks" (author\'s README)',
                    'confirmed': {'patch_applies': True, 'repo_tests_with_patch': res.get('tests_with_patch') or prev.get('confirmed', {}).get('repo_tests_with_patch'), 'demo_fails_with_patch': True, 'demo_passes_without': True},
                    'what_i_ran': [f'patch -p1 < patch.diff in a scratch copy of /repo', 'pytest tests (31 pass)', 'demo.py with and without the patch',
                                   f'./vcheck {a.pid} --tier {a.tier} with PYTHONPATH=<scratch>/src'],
                    'check_results': res['checks'], 'detected_by': [k for k, v in res['checks'].items() if v['exit'] == 1 and v['violations']]}
            json.dump(meta, open(os.path.join(d, 'meta.json'), 'w'), indent=1)
        print(json.dumps(res, indent=1))
        return 0 if res['detected'] else 1
    finally:
        shutil.rmtree(base, ignore_errors=True)


if __name__ == '__main__':
    sys.exit(main())
