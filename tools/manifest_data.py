"""Per-property manifest metadata (single source for tools/mkmanifest.py)."""
NOT_APPLICABLE = {}
CHECKS = {
 'C01': dict(engine='E1-lanes', category='model_checking', design_ref='DESIGN.md §2.1, §5 C01',
   technique='symbolic execution of the real LogicSim on z3 bit-vector lanes + SMT equivalence with an independent netlist oracle',
   text='For every circuit of a stated corpus (all 33 primitives x pin patterns, hand-made shapes, seeded random DAGs, repo netlists; three structural styles) the real '
        's_to_c/c_prop (both 2-valued copies)/c_to_s/cycle run once on symbolic bit lanes, so z3 decides "captured value = gate-by-gate netlist value" for ALL stimuli of all lanes, '
        'batch sizes {1,3,8,9,17} and cycle counts <= 3. Circuit structure is enumerated, not symbolic - a bounded claim, which is the reachable level for object-graph code.',
   note='Trusted: oracle vlib/ref2.py, z3, numpy object-array dispatch. Bounds: corpus sizes/limits in evidence; explicitly sized kinds with trailing open pins excluded; cycles <= 3.'),
}
