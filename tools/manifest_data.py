"""Per-property manifest metadata (single source for tools/mkmanifest.py)."""
NOT_APPLICABLE = {}
CHECKS = {
 'C01': dict(engine='E1-lanes', category='model_checking', design_ref='DESIGN.md §2.1, §5 C01',
   technique='symbolic execution of the real LogicSim on z3 bit-vector lanes + SMT equivalence with an independent netlist oracle',
   text='For every circuit of a stated corpus (all 33 primitives x pin patterns, hand-made shapes, seeded random DAGs, repo netlists; four structural styles incl. branch forks) the real '
        's_to_c/c_prop (both 2-valued copies)/c_to_s/cycle run once on symbolic bit lanes, so z3 decides "captured value = gate-by-gate netlist value" for ALL stimuli of all lanes, '
        'batch sizes {1,3,8,9,17}, cycle counts <= 3, default options and c_reuse+strip_forks. Circuit structure is enumerated, not symbolic - a bounded claim, which is the reachable level for object-graph code.',
   note='Trusted: oracle vlib/ref2.py, z3, numpy object-array dispatch. Bounds: corpus sizes/limits in evidence; explicitly sized kinds with trailing open pins excluded; cycles <= 3.'),
 'C02': dict(engine='E1-lanes', category='model_checking', design_ref='DESIGN.md §2.1, §2.5, §5 C02',
   technique='symbolic execution of the real LogicSim (m=4, m=8) on z3 bit-vector planes + SMT equivalence with the documented algebra and X-soundness queries',
   text='Per corpus circuit one symbolic run of the real 4-/8-valued c_prop with all three bit planes of every input lane symbolic; z3 decides (i) every captured value equals the '
        'gate-by-gate composition of the documented operators modulo {X,-}, (ii) every non-unknown result component equals the 2-valued netlist value of ANY 0/1 completion of the unknown inputs, '
        '(iii) known inputs give known outputs. Also under c_reuse / strip_forks and for a second propagation on the same simulator object (both stimuli symbolic). Data-dependent fast paths in the operators fork (E2). Structure enumerated (bounded corpus), values exhaustive by solver.',
   note='Trusted: vlib/specmv.py + vlib/ref2.py oracles, z3. MUX21 spec = OR(AND(i0,NOT s),AND(i1,s)). s_ppo_to_ppi with X/- in 8-valued mode outside the statement. Batches beyond 17 patterns: one concrete differential with 2^19+512 patterns (whole batch vs pieces), not a solver verdict.'),
 'C12': dict(engine='E1-lanes + E2-symx', category='model_checking', design_ref='DESIGN.md §2.2, §5 C12',
   technique='bp operators: one-path symbolic execution + z3; mv operators: forking symbolic execution of the real numpy code on symbolic codes, every path replayed on real uint8 arrays',
   text='All value combinations of 1..4 operands are decided by z3 for the real bp4v_*/bp8v_* (terms over 8 lanes x planes) and the real mv_*/_mv_* (every feasible path of the numpy mask logic), '
        'against the documented algebra (modulo {X,-}), the Boolean restriction, De Morgan duality, exact mv-vs-bp agreement and delivery in a caller-supplied out array. Shapes/broadcast cases enumerated.',
   note='Trusted: vlib/specmv.py, z3, numpy object-array dispatch; np.empty shimmed to object arrays in symbolic runs, each path cross-checked on real uint8 arrays. Scalar (0-d) operands not covered. Arrays beyond the symbolic sizes: one concrete differential with 65560 bytes per plane (whole array vs pieces), not a solver verdict.'),
 'C16': dict(engine='E1-lanes', category='model_checking', design_ref='DESIGN.md §5 C16',
   technique='symbolic execution of the real c_prop(inject_cb) with a callback that writes fresh symbolic planes + SMT equivalence with the oracle of the cut circuit; concrete call-trace comparison',
   text='For every line of every small-corpus circuit and every logic (2/4/8) the real c_prop runs symbolically with a callback overwriting that line with fresh variables; z3 decides that s[1] equals the '
        'oracle of the circuit with that line cut, for all stimuli and all injected values; untouched callback = no callback. The data-independent call trace (one call per evaluated line, in op order, '
        'Line identity, writable view of the fresh values) is compared on one concrete run per (circuit, logic).',
   note='Trusted: ref2/specmv oracles, z3. Every third hand-made shape also under c_reuse / strip_forks (injection on a stripped branch = injection on its stem). Ops writing the scratch slot (unconnected output) have no Line and are skipped.'),
 'C19': dict(engine='E1-lanes', category='model_checking', design_ref='DESIGN.md §5 C19',
   technique='exhaustive pin-table comparison against an independent re-parse of the declarations + symbolic execution of every implementation circuit through the real LogicSim, z3 equality with data-sheet functions',
   text='All ~1000 names of the five libraries: each name expands, pin indices/directions follow the declaration order and the implementation circuit (finite, exhaustive). Every distinct combinational '
        'implementation in a claimed family is executed once symbolically and z3 proves each output pin equal to the data-sheet function for all input combinations.',
   note='Trusted: the data-sheet table in checks/c19.py (family regex, vendor pin grouping), z3. Sequential, tristate, clock-gating, power-switch cells: pin tables only.'),
 'C10': dict(engine='E1-lanes', category='model_checking', design_ref='DESIGN.md §5 C10',
   technique='before/after SMT equivalence: transformed circuits run symbolically through the real LogicSim; oracle = ref2 of the original graph resp. hierarchical evaluation of the implementation circuit',
   text='Every transformation sequence (copy, pickle, eliminate_1to1_forks; length <= 2/3) on the corpus and every distinct library implementation of five libraries (all pins connected, each single input or '
        'output open, fan-out variant, post-transformations), plus custom implementation shapes with all pin subsets: z3 decides function preservation for all stimuli; s_nodes name lists compared exactly.',
   note='Trusted: ref2 + hierarchical oracle (open pin = 0), z3. Instances built with the Circuit API. Known findings: latch cells whose names lack "latch" become state elements on resolution; sized AND/NAND with trailing open pin; state cell with all outputs open is removed; node removal permutes the order of state elements in s_nodes.'),
 'C03': dict(engine='E2-symx', category='model_checking', design_ref='DESIGN.md §3, §4, §5 C03',
   technique='forking symbolic execution (z3, real arithmetic) of the real _wave_eval / s_to_c / whole WaveSim runs; kernel lemmas L-WF + L-BOOL as inductive step; QF_FP float lemmas; float32 replay of every path',
   text='Every feasible path of one call of the real waveform kernel on arbitrary well-formed operand waveforms (symbolic times, 4 symbolic delays per line, capacities that force the overflow branch) is explored and z3/'
        'the path structure decide: output well-formed inside its region, starts at LUT(initial values), ends (parity) at LUT(final values) - for all 33 primitives. Boundary lemma for s_to_c (CPU and GPU kernel), the schedule / memory-map glue obligations (E3 queries of C07/C08 on a reduced corpus) and end-to-end '
        'runs through the public API (incl. per-line capacities with stripped forks) close the induction over the op list, which itself is a paper argument.',
   note='Bounded: K transitions per input by arity, caps {4,8,16}, times/delays real in bounded ranges, float32 modelled exactly on a dyadic grid (lemmas F1-F3). Lifting to all circuits is a paper induction (DESIGN §4) relying on C07/C08.'),
 'C04': dict(engine='E2-symx', category='model_checking', design_ref='DESIGN.md §4, §5 C04',
   technique='forking symbolic execution of the real _wave_eval with product runs (t vs t+delta, x2, x1/2); z3 validity of window membership, exact shift/scale, strict monotonicity per path; STA windows end-to-end',
   text='Kernel lemmas on all paths of the real kernel: each emitted transition is an input transition plus one of that line\'s delays (hence inside the static-timing window by induction), a symbolic shift delta of all inputs '
        'shifts the output by exactly delta, scaling by 2 and 1/2 scales it, polarity-independent delays give strictly increasing timestamps. Static-timing windows are additionally checked end-to-end on small circuits, and the capture lemma (shared with C13) shows that s[4]/s[5] are the earliest/latest transition of the waveform whatever earlier propagations left behind its terminator.',
   note='Bounded as C03; shifts |delta| <= 500, power-of-two factors 2 and 1/2 only; exact real arithmetic stands for float32 on the dyadic grid named in the statement.'),
 'C05': dict(engine='E2-symx + E1-lanes', category='model_checking', design_ref='DESIGN.md §4 L-HAZ, §5 C05',
   technique='forking symbolic execution of the real _wave_eval against the result of the real LogicSim(m=8) for every abstract input tuple the stimulus shape conforms to; end-to-end runs of both simulators',
   text='For every primitive and every abstract input tuple over {0,1,R,F,P,N} (within the K bound) all paths of the real kernel with symbolic times/delays are explored: initial/final values agree with the 8-valued result and a '
        'plain 0/1 result implies no transition at all. End-to-end: small circuits, stimuli over {0,1,R,F}, WaveSim and WaveSimCuda, options default / c_reuse / c_reuse+strip_forks; the 0/1/R/F stimulus encoding (s_to_c, CPU and GPU) is proved from symbolic old slot contents; a second capture at a symbolic finite time leaves initial/final values untouched.',
   note='Bounded as C03. The gate-by-gate lifting (conformance is preserved) is a paper induction confirmed end-to-end; the schedule / memory-map glue obligations it relies on are re-discharged in this check.'),
 'C13': dict(engine='E2-symx', category='model_checking', design_ref='DESIGN.md §4 L-OVL/L-WSA, §5 C13',
   technique='forking symbolic execution of the real wave_capture_cpu/gpu (via c_to_s with symbolic capture time), of _wave_eval in product with capacity 64, and of propagation with symbolic integer accumulation weights',
   text='All paths: capture results equal what a well-formed waveform with <= 3/4 symbolic entries encodes (initial, earliest, latest, final, value before T, overflow mark) for CPU and GPU kernels; returned rise/fall counts equal '
        'the emitted transitions; overflow marker clear implies identity with the unlimited-capacity waveform and operand markers propagate; accumulators equal the weighted transition counts for symbolic weights.',
   note='sd > 0 capture outside the claim. Accumulator index patterns enumerated. Bounded as C03.'),
 'C07': dict(engine='E3-tables + E1-lanes', category='model_checking', design_ref='DESIGN.md §2.3, §5 C07',
   technique='SMT queries over the op/level/memory tables published by the real SimOps (free variables: op pairs, operands) + symbolic equivalence of the real LogicSim under permuted level-internal op orders',
   text='Per corpus circuit, option setting and capacity setting the real constructor is run and z3 decides that no op writes a region another op of the same level reads or writes and that every operand is an '
        'interface slot or produced in a strictly earlier level - which makes all orders and interleavings of a level equivalent. Confirmed by running the real LogicSim symbolically with reversed / shuffled rows '
        '(z3 equality for all stimuli) and WaveSim / WaveSimCuda concretely with permuted rows and a permuted thread order of the mock GPU launcher.',
   note='Structure enumerated (corpus). Per-op footprint (reads only operand regions, writes only the output region) comes from lemma L-FP of C03. WaveSim permutation runs are concrete and supplementary.'),
 'C08': dict(engine='E2-symx + E3-tables', category='model_checking', design_ref='DESIGN.md §5 C08',
   technique='inductive step of the real Heap.alloc/free from arbitrary valid pre-states by forking symbolic execution (symbolic sizes, symbolic-key dict) + SMT queries over real SimOps memory maps against an independent liveness analysis',
   text='Allocator: for every free/used pattern admitted by the representation invariant with <= 5/6 chunks, symbolic sizes and request size, all paths of one real alloc/free are explored and z3 proves invariant preservation, '
        'non-overlap with live chunks, coalescing and the high-water mark - an induction over histories of any length. Map: z3 decides per (circuit, options, capacity vector) that no two simultaneously live signals overlap, '
        'regions stay inside c_len and aliases are exact.',
   note='Chunk-count bound (allocator inspects a chunk and its two neighbours); liveness oracle in vlib/tables.py is trusted; circuit structure and capacity vectors enumerated.'),
 'C06': dict(engine='E1-lanes + E2-symx', category='model_checking', design_ref='DESIGN.md §5 C06',
   technique='LogicSim: symbolic runs of the real simulator under each option setting, z3 term equality, lane non-interference with a symbolic lane index; WaveSim: forking product runs through the public API on shared symbolic delays/times',
   text='LogicSim (m=2/4/8): for every corpus circuit the captured terms of all four (c_reuse, strip_forks) settings and two batch sizes are proved equal for all stimuli, and a lane is proved independent of all other lanes. '
        'WaveSim/WaveSimCuda: product runs with all delays and times symbolic prove identical s[3..7], s[10] (symbolic capture time), identical signal memory without reuse, identical state transfer, independence of batch size, exhaustive thread-grid coverage of the mock launcher, '
        'lane position and c_prop(sims=k), and dataset selection by seed (mode 0) or per lane (mode 1) = that dataset alone.',
   note='Delay selection mode 2 (pseudo-random per gate) and sd > 0 outside the claim. WaveSim part on circuits with <= 3 gates and one transition per input. Structure enumerated.'),
 'C15': dict(engine='E2-symx', category='model_checking', design_ref='DESIGN.md §2.4, §5 C15',
   technique='forking symbolic execution of the real interpret/mvarray/mv_str on symbolic characters; symbolic bit-vector contents through the real mv_to_bp/bp_to_mv/packbits/unpackbits with numpy bit-packing stubs; the real popcount executed on arrays of symbolic uint8 elements (z3 bit-vectors)',
   text='Every path of the alias matching for symbolic characters (strings up to length 2/3 fully symbolic, one symbolic character at every position of longer strings, > 2-D inputs given as groups of strings with one and two patterns per group) is compared with the documented alias table and rendered back; '
        'mv<->bp round trips, axis convention and padding lanes, and the generic pack/unpack helpers for eight integer dtypes are decided by z3 per output bit for all contents; popcount = number of one bits, decided by z3 on the term the real function builds (one arbitrary byte per query, neighbours over four corner values).',
   note='np.packbits / np.unpackbits / ndarray.view are stubs written from the numpy documentation and differentially validated on every run; shapes, pattern counts and dtypes (incl. non-native byte order, round trip only) enumerated. Sizes beyond the symbolic bound (popcount up to 2^22+3 bytes, mv/bp conversion of > 2^20 values): concrete differentials, not solver verdicts.'),
 'C20': dict(engine='E2-symx', category='model_checking', design_ref='DESIGN.md §5 C20, §7',
   technique='symbolic-integer execution of the real DefWire/DefNet post-processing (z3 validity of resolved coordinates and via-array positions) + rendered-text enumeration for grammar and transformer',
   text='For every wildcard pattern and via kind on wires with <= 3/4 points, with coordinates and array steps as symbolic integers, z3 proves that resolved coordinates equal the previous point\'s, via arrays expand to all n x m '
        'positions and per-layer listings exist for special and regular nets. Grammar + transformer are compared with the ground truth of a renderer on 40/300 generated DEF files covering all sections (bounded enumeration).',
   note='The text dimension is enumerated, not symbolic (lark lexes with C regexes). Renderer/ground truth in checks/c20.py is trusted.'),
 'C14': dict(engine='E2-symx', category='model_checking', design_ref='DESIGN.md §5 C14, §7',
   technique='real SDF parser on rendered texts (enumerated) + forking symbolic execution of the real iopaths()/interconnects() with every delay literal a symbolic real; z3 validity of every array entry against the ground truth',
   text='For each rendered SDF file (entry order, CELL grouping incl. repeated blocks per instance and several anonymous blocks, edge qualifiers, one/two value lists, empty and partial triples, escaped names, both branchforks settings) '
        'the literals become symbolic reals and z3 proves for all values that every entry of both delay arrays equals the ground truth [dataset, line feeding the pin, in-polarity, out-polarity] and all other entries are 0.',
   note='The text dimension is enumerated (2 circuits x 30 groupings x k seeds). One INTERCONNECT entry is symbolic per exploration (the all-zero test forks on value order); IOPATH values are symbolic in all. Renderer/ground truth trusted.'),
 'C09': dict(engine='E2-symx (choice exploration)', category='exploration', design_ref='DESIGN.md §5 C09, §7',
   technique='bounded exhaustive exploration of edit histories with the forking symbolic-execution engine: operations/operands are choice integers, explicit pin numbers symbolic ints constrained to free positions and concretised by z3',
   text='All edit histories of length 4 (quick) / 5 (thorough) from the empty circuit over ten public operations (<= 4 live nodes; or a small bench-built netlist followed by removing/rewiring operations), with the full '
        'consistency invariant of the statement asserted on the real objects after every step. Exhaustive within the bound - structure cannot stay symbolic in object-graph code, so the solver only decides pin feasibility.',
   note='Histories longer than the bound and more live nodes are outside the claim. Well-formed use as stated (free explicit pins; fork output pins gap-free; one substitution per instance name).'),
 'C17': dict(engine='E2-symx (choice exploration)', category='exploration', design_ref='DESIGN.md §5 C17, §7',
   technique='bounded exhaustive exploration of circuit graphs and origin sets with the forking engine; bus index values as symbolic integers concretised by z3 under distinctness constraints; independent definitions of the traversal semantics',
   text='Every graph with <= 3 nodes over seven kinds and every 4-node graph over four kinds (quick; <= 4 nodes over all kinds thorough) with any input pin optionally unconnected, every graph with <= 3 nodes in which two-output nodes may leave output pin 0 open, plus the corpus circuits: completeness, '
        'driver-before-reader order cut at state elements, longest-path levels, line order, mirrored reverse order, fan-in sandwich (combinational-path set <= yielded <= any-path set, equality for combinational circuits); '
        'prefix lookups ordered LSB to MSB for bracket / underscore / plain index styles, gaps, two dimensions.',
   note='Exhaustive within the bound only. Known finding: fanin() omits state elements that feed the cone through an intermediate node.'),
 'C11': dict(engine='E1-lanes behind the real parsers', category='model_checking', design_ref='DESIGN.md §5 C11, §7',
   technique='rendered netlist texts (enumerated) through the real Verilog/bench parsers and resolve_tlib_cells, then symbolic execution of the real LogicSim and z3 equality with the ground-truth function of the described netlist',
   text='For each ground-truth netlist (buses with ascending/descending/one-bit ranges, bit selects, concatenations, sized constants, chained assigns, multi-output cells, flip-flops, escaped identifiers) and each textual rendering '
        '(declaration styles, port nets additionally declared as wire before or after their direction, statement order, pin order, comments, attributes, whitespace, both branchforks settings) z3 proves that every output port - compared by position - and every state element computes the described function for all stimuli; '
        'bench and Verilog renderings of the same netlist are both proved equal to the ground truth, hence equivalent; branchforks only adds forks.',
   note='The text dimension is enumerated by the renderer in checks/c11.py (trusted with its evaluator and the C19 data-sheet table). Positional pin connections and hierarchical Verilog outside the claim.'),
 'C18': dict(engine='E2-symx', category='model_checking', design_ref='DESIGN.md §5 C18, §7',
   technique='forking symbolic execution of the real StilFile.tests()/responses()/tests_loc() with symbolic pattern characters (one position at a time) on enumerated chain layouts, marker placements, group orders and call sequences; rendered texts for the grammar',
   text='For every subset of inversion-marker gaps (quick: <= 2 markers), both signal-group orders and three call flows (stuck-at, launch-on-capture with and without launch pulse), every pattern character position in turn is symbolic and '
        'all paths of the real assembly functions are compared with the STIL semantics: chain order (first shifted bit = cell nearest scan-out), load/unload inversion sides, unknowns not inverted, PI/PO mapping through the groups, '
        'LoC values = transition(loaded, netlist next state). Grammar -> IR is compared on rendered STIL texts and the two shipped files.',
   note='Chains, markers, group orders, flows and texts enumerated; STIL semantics oracle in checks/c18.py trusted; capture without clock pulse in LoC flows is outside the generated family.'),
}
