#!/usr/bin/env python3
"""Regenerates /verif/MANIFEST.json from the table below and validates it (python3-vt has jsonschema)."""
import json, os, sys
ROOT = os.path.dirname(os.path.dirname(os.path.abspath(__file__)))
sys.path.insert(0, ROOT)
from tools.manifest_data import CHECKS, NOT_APPLICABLE

PROPS = [json.loads(l)['id'] for l in open(os.path.join(ROOT, 'properties.jsonl'))]
m = {
    'version': 1,
    'setup_cmd': './setup.sh',
    'hooks': {'guard': 'KYUPY_VERIF', 'enable': 'no source hooks: the harness swaps simulator arrays / module-level names at run time (vcheck exports KYUPY_VERIF=1, unused by /repo)',
              'baseline_off_cmd': 'cd /repo && /venv/bin/python -m pytest -ra -q -p no:cacheprovider --timeout=900 --continue-on-collection-errors',
              'source_commits': [], 'add_only': True},
    'engines': [
        {'name': 'E1-lanes', 'path': 'vlib/lanes.py', 'serves_properties': ['C01', 'C02', 'C05', 'C06', 'C10', 'C11', 'C12', 'C16', 'C18', 'C19'],
         'kind_free_text': 'real LogicSim / logic.bp* executed on numpy object arrays of z3 BitVec(8): one symbolic run covers all stimuli of all lanes; z3 decides equivalence with the oracle'},
        {'name': 'E2-symx', 'path': 'vlib/engine.py', 'serves_properties': ['C03', 'C04', 'C05', 'C06', 'C08', 'C09', 'C12', 'C13', 'C14', 'C15', 'C17', 'C18', 'C20'],
         'kind_free_text': 'forking re-execution engine (dynamic symbolic execution) with value classes for float times (z3 Real + sentinel class), ints, small bit-vectors; z3 decides every branch and the end-of-path assertion'},
        {'name': 'E3-tables', 'path': 'vlib/tables.py', 'serves_properties': ['C07', 'C08'],
         'kind_free_text': 'SMT queries over the tables the real SimOps publishes (ops, levels, c_locs, c_caps): op pairs, cells and permutations are the free variables'},
    ],
    'checks': [],
    'not_applicable': [],
    'notes': 'All checks: ./vcheck <ID> --tier quick|thorough. Exit 2 = harness/solver problem (never a VIOLATION). See DESIGN.md.',
}
for pid in PROPS:
    if pid in CHECKS:
        c = CHECKS[pid]
        m['checks'].append({
            'property_id': pid, 'quick_cmd': f'./vcheck {pid} --tier quick', 'thorough_cmd': f'./vcheck {pid} --tier thorough',
            'evidence_file': f'/verif/evidence/{pid}.json', 'replay_cmd_template': f'./vcheck {pid} --replay {{path}}',
            'engine': c['engine'], 'level_claimed': {'category': c['category'], 'text': c['text'], 'design_ref': c['design_ref']},
            'level_note': c['note'], 'technique': c['technique']})
    else:
        m['not_applicable'].append({'property_id': pid, 'reason': NOT_APPLICABLE.get(pid, 'check not built yet (work in progress)')})
json.dump(m, open(os.path.join(ROOT, 'MANIFEST.json'), 'w'), indent=1)
try:
    import jsonschema
    jsonschema.validate(m, json.load(open('/root/.vp/MANIFEST.schema.json')))
    for pid in CHECKS:
        p = os.path.join(ROOT, 'evidence', pid + '.json')
        if os.path.exists(p): jsonschema.validate(json.load(open(p)), json.load(open('/root/.vp/EVIDENCE.schema.json')))
    print('MANIFEST ok;', len(m['checks']), 'checks,', len(m['not_applicable']), 'not applicable')
except ImportError:
    print('written (jsonschema not available for validation)')
