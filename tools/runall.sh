#!/bin/bash
# runs every registered check of a tier sequentially; prints one line per check
cd "$(dirname "$0")/.."
tier=${1:-quick}
for p in $(python3 -c "import json;print(' '.join(c['property_id'] for c in json.load(open('MANIFEST.json'))['checks']))"); do
  s=$(date +%s)
  ./vcheck $p --tier $tier > /tmp/runall_$p.log 2>&1
  rc=$?
  echo "$p rc=$rc $(( $(date +%s) - s ))s $(grep -c '^VIOLATION' /tmp/runall_$p.log) violations, $(grep -c '^KNOWN-FINDING' /tmp/runall_$p.log) known"
done
