#!/bin/bash
# re-confirms every kept seeded change and re-runs the check of its property against it (REJOBS in parallel); prints one line per seed.
# RESKIP=1: do not repeat the repository's test-suite (it was run when the seed was first confirmed; meta.json keeps that record)
cd "$(dirname "$0")/.."
ls -d seeded/*/ | sed 's#/$##' | while read d; do n=$(basename $d); echo "${n%%-*} $d $n"; done | \
  xargs -P ${REJOBS:-3} -L 1 bash -c 'python3 tools/seedcheck.py $0 $1 --keep $2 ${RESKIP:+--skip-tests} > /tmp/reseed_$2.json 2>/dev/null; echo "$2 rc=$? $(python3 -c "import json;d=json.load(open(\"/tmp/reseed_$2.json\"));print(d.get(\"confirmed\"),d.get(\"detected\"))" 2>/dev/null)"'
