"""C03 - timing simulation settles to the Boolean function for any delays / capacity.
Kernel lemmas L-WF + L-BOOL on the real _wave_eval (E2, all paths), boundary lemma on the real s_to_c (CPU and GPU kernel),
end-to-end confirmation through the public WaveSim API on small circuits with overflowing capacities."""
import itertools

import numpy as np
import z3

from kyupy import wave_sim
from kyupy.wave_sim import WaveSim, WaveSimCuda, TMIN, TMAX, TMAX_OVL

from vlib import common, wave, wsim
from vlib.wave import LUTS, lut_arity

LEVEL = 'model_checking'
ASSUME = [
    'kernel lemma = one inductive step: one call of the real _wave_eval on ARBITRARY well-formed operand waveforms (optional TMIN, <= K finite entries in any order, terminator TMAX) '
    'with symbolic times, 4 independent symbolic delays >= 0 per input line, arbitrary old content of the output region',
    'lifting to whole circuits: induction over the topologically ordered op list (paper argument, DESIGN.md §4) using C07/C08 (operands produced earlier, live regions disjoint); confirmed end-to-end on small circuits',
    'float model: exact real arithmetic for finite times + sentinel classes (TMIN/TMAX/TMAX_OVL absorb finite offsets, float lemmas F1-F3 discharged in QF_FP on every run); '
    'every completed path is re-run on real float32 arrays with a dyadic-grid model (|t| <= 1000, multiples of 1/8) and must agree',
    'bounds: K transitions per input by arity (see bounds), capacities {4, 8, 16}; capacities are positive multiples of 4 (documented precondition)',
]


def kernel_jobs(tier, lemmas):
    J = []
    for name in LUTS:
        ar = lut_arity(name)
        if ar == 1: K, caps = 4, (4, 16)
        elif ar == 2: K, caps = (2 if tier == 'quick' else 3), (4, 16)
        elif ar == 3: K, caps = (1 if tier == 'quick' else 2), (4, 8)
        else: K, caps = 1, (4, 8) if tier == 'thorough' else (4,)
        for Ks in wave.K_combos(ar, K, total=4 if ar == 3 else None):          # 3 inputs: <= 2 each and <= 4 overall ((2,2,1), (2,2,2) took hours - measured)
            for inits in itertools.product((0, 1), repeat=ar):
                for cap in caps:
                    J.append((name, Ks, inits, cap, None, False, lemmas))
    return J


def float_lemmas(rep):
    """F1 absorption, F2 exactness on the grid, F3 order - QF_FP queries (z3)."""
    import time
    F32 = z3.Float32(); RNE = z3.RNE()
    x = z3.FP('x', F32); y = z3.FP('y', F32)
    big = z3.FPVal(2.0 ** 127, F32); ovl = z3.FPVal(float(np.float32(1.1 * 2 ** 127)), F32)
    small = z3.fpLEQ(z3.fpAbs(x), z3.FPVal(2.0 ** 40, F32))
    isint = lambda v: z3.fpEQ(z3.fpRoundToIntegral(z3.RTZ(), v), v)
    B = z3.FPVal(2.0 ** 22, F32)
    A = [isint(x), isint(y), z3.fpLEQ(z3.fpAbs(x), B), z3.fpLEQ(z3.fpAbs(y), B)]
    lem = [
        ('F1 TMAX+x=TMAX', z3.fpEQ(z3.fpAdd(RNE, big, x), big), [small]),
        ('F1 TMIN+x=TMIN', z3.fpEQ(z3.fpAdd(RNE, z3.fpNeg(big), x), z3.fpNeg(big)), [small]),
        ('F1 TMAX_OVL+x=TMAX_OVL', z3.fpEQ(z3.fpAdd(RNE, ovl, x), ovl), [small]),
        ('F2 add exact on grid', z3.And(z3.fpEQ(z3.fpAdd(z3.RTN(), x, y), z3.fpAdd(z3.RTP(), x, y)), isint(z3.fpAdd(RNE, x, y))), A),
        ('F2 sub exact on grid', z3.fpEQ(z3.fpSub(z3.RTN(), x, y), z3.fpSub(z3.RTP(), x, y)), A),
        ('F3 order', z3.Implies(z3.fpLT(x, y), z3.fpLT(z3.fpAdd(RNE, x, z3.FPVal(0.0, F32)), z3.fpAdd(RNE, y, z3.FPVal(0.0, F32)))), A),
    ]
    for name, claim, assume in lem:
        s = z3.Solver(); s.set('timeout', 120000)
        s.add(*assume); s.add(z3.Not(claim))
        t = time.time(); r = s.check(); rep.solver_s += time.time() - t
        rep.counts['queries_' + str(r)] += 1
        rep.counts['float_lemmas'] += 1
        if r != z3.unsat: rep.error(f'float lemma {name}: {r}')


def run(tier, seed):
    lem = frozenset({'WF', 'BOOL'})
    J = kernel_jobs(tier, lem)
    J.sort(key=lambda j: -(sum(j[1]) + 1) ** len(j[1]))
    rep = common.pmap(wave.kernel_job, J, chunksize=1)
    float_lemmas(rep)
    rep.merge(common.pmap(wsim.boundary_job, wsim.boundary_jobs(), chunksize=4))
    E = wsim.e2e_jobs(tier, seed, {'BOOL'})
    # per-line capacities with stripped forks: a captured fork branch shares memory AND capacity with its (larger) stem; four transitions overflow a capacity of 4
    for cls in ('cpu', 'gpu'):
        for st in (('RRRR0', 'RFRF1') if tier == 'thorough' else ('RRRR0',)):
            E.append((wsim.E6.to_json(), cls, ('stem', 8, 4), st, ('BOOL',), (('strip_forks', True),)))
    for cls in ('cpu', 'gpu'):
        for st in ('RF', 'FR', 'R1'): E.append((wsim.E7.to_json(), cls, 8, st, ('BOOL',), ()))      # a port that is driven and read by two gates (bench style)
    rep.merge(common.pmap(wsim.e2e_job, E, chunksize=1))
    rep.merge(common.pmap(wsim.glue_job, wsim.glue_jobs(tier, seed), chunksize=4))          # schedule / memory-map obligations the induction relies on
    # reachability twin: the lemma machinery must reject a wrong expectation (AND2 checked against the OR2 function)
    orig = wave.lut_fn
    wave.lut_fn = lambda n: orig('OR2')
    try: tw = wave.kernel_job(('AND2', (1, 1), (0, 1), 8, None, False, frozenset({'WF', 'BOOL'})))
    finally: wave.lut_fn = orig
    if not tw.violations: rep.error('reachability twin failed: wrong Boolean expectation was not refuted')
    rep.counts['twins'] += 1
    cov = {
        'states': int(rep.counts['paths']), 'transitions': int(rep.counts['branches']) + int(rep.counts['paths']),
        'traces_validated_against_impl': int(rep.counts['concolic_runs']),
        'obligations': int(rep.counts['obligations']), 'discharged': int(rep.counts['discharged']),
        'kernel_jobs': len(J), 'float_lemmas': int(rep.counts['float_lemmas']), 'boundary_paths': int(rep.counts['boundary_paths']), 'e2e_paths': int(rep.counts['e2e_paths']),
        'explanation': 'states = completed symbolic paths through the real _wave_eval / s_to_c / whole WaveSim runs; transitions = solver-decided branch points; each path also replayed on float32 arrays',
        'functions_encoded': common.fn_sha(wave_sim._wave_eval, WaveSim.s_to_c, wave_sim.wave_assign_gpu.func if hasattr(wave_sim.wave_assign_gpu, 'func') else wave_sim.wave_assign_gpu,
                                           WaveSim.c_prop, wave_sim.level_eval_cpu, wave_sim.wave_capture_cpu),
        'bounds': {'K per input': {'arity1': 4, 'arity2': 2 if tier == 'quick' else 3, 'arity3': 1 if tier == 'quick' else '2 (<= 4 overall)', 'arity4': 1}, 'caps': [4, 8, 16], 'luts': len(LUTS),
                   'times': '[-1000,1000] real', 'delays': '[0,1000] real, 4 per line'},
        'exhaustive': False,
        'summary': f'{len(J)} kernel jobs, {rep.counts["paths"]} paths, {rep.counts["obligations"]} obligations, {rep.counts["discharged"]} discharged, {rep.counts["concolic_runs"]} float32 replays',
    }
    return LEVEL, rep, cov, ASSUME


def replay(data):
    if data.get('mode') in ('boundary', 'e2e', 'glue'): return wsim.replay(data)
    prob = wave.concrete_lemma(data)
    return bool(prob), str(prob)
