"""C04 - transitions stay inside the static-timing window and move rigidly with inputs; monotone timestamps.
Kernel lemmas L-TIME, L-SHIFT, L-SCALE, L-MONO on the real _wave_eval (E2) + end-to-end static-timing windows through the public API."""
import itertools

from kyupy import wave_sim
from kyupy.wave_sim import WaveSim

from vlib import common, wave, wsim
from vlib.wave import LUTS, lut_arity

LEVEL = 'model_checking'
ASSUME = [
    'kernel lemmas on one call of the real _wave_eval with arbitrary well-formed operands (symbolic times, 4 symbolic delays >= 0 per line): '
    'L-TIME every emitted transition = some input transition time + one of that line\'s delays (=> static-timing window by induction over the op list); '
    'L-SHIFT product run on t and t+delta (delta symbolic); L-SCALE product runs with factors 2 and 1/2; L-MONO with polarity-independent delays and strictly increasing inputs',
    'exact real arithmetic models float32 on the dyadic grid of the statement (float lemmas F1-F3 of C03); every path replayed on float32 arrays with a grid model',
    'capture lemma (shared with C13): s[4] / s[5] are the earliest / latest transition of the waveform whatever lies behind its terminator',
    'end-to-end: static-timing windows (min-plus / max-plus over the annotated netlist, built as z3 terms) for every line and for s[4], s[5] on small circuits via the public API',
    'bounds: K per input by arity, capacities {4, 8, 16}; shifts |delta| <= 500; non-power-of-two scaling outside the claim',
]


def kernel_jobs(tier):
    J = []
    for name in LUTS:
        ar = lut_arity(name)
        if ar == 1: Ks, caps = wave.K_combos(1, 3), (4, 16)
        elif ar == 2: Ks, caps = wave.K_combos(2, 2 if tier == 'quick' else 3), (4, 16)
        elif ar == 3: Ks, caps = (wave.K_combos(3, 1) if tier == 'quick' else wave.K_combos(3, 2, total=4)), (8,)
        else: Ks, caps = (wave.K_combos(4, 1, exact=True) if tier == 'quick' else wave.K_combos(4, 1)), (8,)
        for K in Ks:
            for inits in itertools.product((0, 1), repeat=ar):
                for cap in caps:
                    J.append((name, K, inits, cap, None, False, frozenset({'WF', 'TIME', 'SHIFT', 'SCALE'})))
                if sum(K) >= 2: J.append((name, K, inits, 16, None, True, frozenset({'WF', 'MONO'})))
    return J


def run(tier, seed):
    J = kernel_jobs(tier)
    J.sort(key=lambda j: -(sum(j[1]) + 1) ** len(j[1]))
    rep = common.pmap(wave.kernel_job, J, chunksize=1)
    rep.merge(common.pmap(wsim.e2e_job, wsim.e2e_jobs(tier, seed, {'STA'}, light=True), chunksize=1))
    rep.merge(common.pmap(wsim.glue_job, wsim.glue_jobs(tier, seed), chunksize=4))          # schedule / memory-map obligations the induction relies on
    # earliest arrival / latest stabilisation are how the window is observed at outputs: the capture lemma of C13 (real c_to_s on an arbitrary
    # waveform with arbitrary left-overs of earlier propagations behind its terminator, CPU and GPU)
    from checks import c13
    rep.merge(common.pmap(c13.capture_job, c13.capture_jobs(tier), chunksize=1))
    # reachability twin: MONO must fail when delays are allowed to depend on polarity (known: polarity-dependent delays can reorder)
    tw = wave.kernel_job(('XOR2', (2, 2), (0, 0), 16, None, False, frozenset({'WF', 'TWINMONO'})))
    if not tw.counts['twin_refuted']: rep.error('reachability twin failed: monotonicity without the polarity-independence assumption was not refuted')
    cov = {
        'states': int(rep.counts['paths']), 'transitions': int(rep.counts['branches']) + int(rep.counts['paths']),
        'traces_validated_against_impl': int(rep.counts['concolic_runs']),
        'obligations': int(rep.counts['obligations']), 'discharged': int(rep.counts['discharged']), 'kernel_jobs': len(J), 'e2e_paths': int(rep.counts['e2e_paths']),
        'explanation': 'states = completed symbolic paths (product runs count once); per path z3 decides window membership / exact shift / exact scale / strict monotonicity for all times and delays on that path',
        'functions_encoded': common.fn_sha(wave_sim._wave_eval, WaveSim.c_prop, wave_sim.wave_capture_cpu),
        'bounds': {'K per input': {'arity1': 3, 'arity2': 2 if tier == 'quick' else 3, 'arity3': 1 if tier == 'quick' else '2 (<= 4 overall)', 'arity4': 1}, 'caps': [4, 8, 16], 'scale factors': [2, 0.5], 'delta': '[-500,500]'},
        'exhaustive': False,
        'summary': f'{len(J)} kernel jobs, {rep.counts["paths"]} paths, {rep.counts["obligations"]} obligations, {rep.counts["discharged"]} discharged',
    }
    return LEVEL, rep, cov, ASSUME


def replay(data):
    if data.get('mode') in ('boundary', 'e2e', 'glue'): return wsim.replay(data)
    if data.get('mode') == 'capture':
        from checks import c13
        return c13.replay_capture(data)
    prob = wave.concrete_lemma(data)
    return bool(prob), str(prob)
