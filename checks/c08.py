"""C08 - signal-memory map and allocator never let live data overlap.
(a) Heap: one inductive step of the real Heap.alloc / Heap.free from an ARBITRARY valid pre-state (E2: symbolic chunk sizes and
    request size, SymDict-backed chunk table) - covers alloc/free histories of any length within the chunk-count bound.
(b) Map: SMT queries (E3) over the tables of the real SimOps for corpus circuits x capacity vectors x options, against an
    independent def / last-use liveness analysis."""
import itertools
import random

import numpy as np
import z3

from kyupy import sim as ksim
from kyupy.sim import Heap, SimOps

from vlib import common, netlist, tables
from vlib.engine import Engine, SI, SymDict, EngineUnknown

LEVEL = 'model_checking'
ASSUME = [
    'Heap representation invariant I (checked to hold for the empty heap and to be preserved by every step): chunks tile [0,current_size), sizes > 0, released strictly sorted and a subset of the chunk starts, '
    'no two adjacent free chunks, last chunk used, max_size >= current_size',
    'Heap pre-states: every free/used pattern admitted by I with n <= NMAX chunks, symbolic sizes in [1, 65536], symbolic max_size; one alloc(size) with symbolic size or free(loc) of any used chunk',
    'the allocator only ever inspects a chunk and its two neighbours, so NMAX chunks cover the case distinctions (stated, not machine-checked)',
    'map: circuit structure, capacity vectors and options enumerated; liveness from an independent def/last-use analysis on the published op list (ports, state elements, zero/scratch slots pinned)',
    'capacity-independence: the release protocol never looks at capacities and (a) holds for all sizes (paper step)',
]


# ------------------------------------------------------------------------------------------------- (a) Heap induction

def inv_problems(eng, h):
    """representation invariant under the current path condition -> list of failures"""
    fails = []
    items = sorted(h.chunks.items, key=lambda kv: kv[0])       # forking sort by key
    cur = z3.IntVal(0)
    for k, v in items:
        if not eng.valid(SI.ex(k) == cur): fails.append('chunks do not tile the managed range')
        if not eng.valid(SI.ex(v) > 0): fails.append('chunk of size <= 0')
        cur = SI.ex(k) + SI.ex(v)
    if not eng.valid(SI.ex(h.current_size) == cur): fails.append('current_size is not the end of the last chunk')
    if not eng.valid(SI.ex(h.max_size) >= SI.ex(h.current_size)): fails.append('max_size below current_size')
    rel = list(h.released)
    for a, b in zip(rel, rel[1:]):
        if not eng.valid(SI.ex(a) < SI.ex(b)): fails.append('released list not strictly sorted')
    free = [any(eng.valid(SI.ex(r) == SI.ex(k)) for r in rel) for k, v in items]
    if sum(free) != len(rel): fails.append('released entry that is not a chunk start')
    for a, b in zip(free, free[1:]):
        if a and b: fails.append('two adjacent free chunks (not coalesced)')
    if free and free[-1]: fails.append('free chunk at the end of the managed range')
    return fails, items, free


def heap_job(job):
    n, pattern, op, target = job
    rep = common.Report()
    eng = Engine()
    found = []

    def fn(eng):
        h = Heap(); h.chunks = SymDict(); h.released = []
        loc = z3.IntVal(0); used = []; sizes = []
        for i in range(n):
            s = z3.Int(f's{i}'); eng.assume(s >= 1, s <= 65536); sizes.append(s)
            h.chunks.items.append((SI(loc), SI(s)))
            if pattern[i]: h.released.append(SI(loc))
            else: used.append((loc, s))
            loc = loc + s
        h.current_size = SI(loc)
        m = z3.Int('m'); eng.assume(m >= loc, m <= 10 ** 6); h.max_size = SI(m)
        fails = []
        sz = z3.Int('sz')
        try:
            if op == 'alloc':
                eng.assume(sz >= 1, sz <= 65536)
                r = h.alloc(SI(sz))
                re = SI.ex(r)
                for (l, s) in used:
                    if not eng.valid(z3.Or(re + sz <= l, l + s <= re)): fails.append('returned region overlaps a live chunk')
                if not eng.valid(SI.ex(h.max_size) == z3.If(SI.ex(h.current_size) > m, SI.ex(h.current_size), m)): fails.append('high-water mark wrong')
                # the returned location is a used chunk of exactly the requested size
                ok = False
                for k, v in h.chunks.items:
                    if eng.valid(SI.ex(k) == re):
                        ok = eng.valid(SI.ex(v) == sz) and not any(eng.valid(SI.ex(x) == re) for x in h.released)
                if not ok: fails.append('returned location is not a used chunk of the requested size')
            else:
                l, s = used[target]
                h.free(SI(l))
                if any(eng.valid(SI.ex(k) == l) for k, v in h.chunks.items) and not any(eng.valid(SI.ex(x) == l) for x in h.released):
                    fails.append('freed chunk still marked used')
                for j, (l2, s2) in enumerate(used):
                    if j == target: continue
                    if not any(eng.valid(z3.And(SI.ex(k) == l2, SI.ex(v) == s2)) for k, v in h.chunks.items) or any(eng.valid(SI.ex(x) == l2) for x in h.released):
                        fails.append('another live chunk was changed by free')
                if not eng.valid(SI.ex(h.max_size) == m): fails.append('free changed the high-water mark')
            f2, _, _ = inv_problems(eng, h)
            fails += f2
        except (KeyError, IndexError, ValueError, TypeError) as e:
            fails.append(f'{type(e).__name__} raised: {e}')
        rep.counts['obligations'] += 1
        if fails:
            mdl = eng.model()
            found.append(({'mode': 'heap', 'n': n, 'pattern': list(pattern), 'op': op, 'target': target, 'sizes': [mdl.eval(s, model_completion=True).as_long() for s in sizes],
                           'sz': mdl.eval(sz, model_completion=True).as_long(), 'max': mdl.eval(m, model_completion=True).as_long()}, fails[0]))
        else: rep.counts['discharged'] += 1
        return 1
    try: eng.explore(fn)
    except EngineUnknown as e: rep.error(f'heap {job}: {e}')
    rep.counts['paths'] += eng.npaths; rep.counts['branches'] += eng.nbranches; rep.counts['heap_paths'] += eng.npaths; rep.solver_s += eng.tsolve
    for data, detail in found[:1]:
        ok, what = replay(data)
        if ok: rep.violation('heap/' + op, f'{detail}; replay: {what}', data)
        else: rep.error(f'heap {job}: {detail} - counterexample {data} does not replay (pre-state may be unreachable: strengthen the invariant)')
    if eng.complete and not found: rep.sample({'heap pre-state': ['free' if p else 'used' for p in pattern], 'operation': op, 'target used chunk': target, 'paths': eng.npaths, 'verdict': 'invariant and postconditions valid on all paths'}, limit=3)
    return rep


def conc_inv(h):
    cur = 0
    keys = sorted(h.chunks)
    for k in keys:
        if k != cur: return 'chunks do not tile the managed range'
        if h.chunks[k] <= 0: return 'chunk size <= 0'
        cur = k + h.chunks[k]
    if h.current_size != cur: return 'current_size wrong'
    if h.max_size < h.current_size: return 'max_size below current_size'
    if list(h.released) != sorted(set(h.released)): return 'released not strictly sorted'
    if not set(h.released) <= set(keys): return 'released entry that is not a chunk start'
    free = [k in h.released for k in keys]
    if any(a and b for a, b in zip(free, free[1:])): return 'adjacent free chunks'
    if free and free[-1]: return 'free chunk at the end'
    return None


def replay_heap(data):
    """reach the pre-state through a real history from the empty heap (alloc all, free the marked ones), then the step"""
    h = Heap()
    locs = []
    live = {}
    hwm = 0
    try:
        for s in data['sizes']:
            l = h.alloc(s); locs.append(l); live[l] = s
            p = conc_inv(h)
            if p: return True, f'history alloc{data["sizes"]}: {p}'
        for l, f in zip(locs, data['pattern']):
            if f:
                h.free(l); del live[l]
                p = conc_inv(h)
                if p: return True, f'after free({l}): {p}'
        hwm = h.max_size
        if data['op'] == 'alloc':
            r = h.alloc(data['sz'])
            for l, s in live.items():
                if r < l + s and l < r + data['sz']: return True, f'alloc({data["sz"]}) returned {r}, overlapping live chunk ({l},{s}); history sizes {data["sizes"]} freed {data["pattern"]}'
            if h.chunks.get(r) != data['sz'] or r in h.released: return True, f'alloc({data["sz"]}) returned {r} which is not a used chunk of that size'
            if h.max_size != max(hwm, h.current_size): return True, 'high-water mark wrong'
        else:
            l = [x for x, f in zip(locs, data['pattern']) if not f][data['target']]
            h.free(l)
            if l in h.chunks and l not in h.released: return True, 'freed chunk still used'
            if h.max_size != hwm: return True, 'free changed the high-water mark'
        p = conc_inv(h)
        if p: return True, f'after {data["op"]}: {p}; history sizes {data["sizes"]} freed {data["pattern"]} request {data["sz"]}'
    except Exception as e:
        return True, f'{type(e).__name__} raised: {e}; history sizes {data["sizes"]} freed {data["pattern"]}'
    return False, 'no problem'


def heap_jobs(nmax):
    J = []
    for n in range(0, nmax + 1):
        for pattern in itertools.product([0, 1], repeat=n):
            if any(a and b for a, b in zip(pattern, pattern[1:])): continue
            if n and pattern[-1]: continue
            J.append((n, pattern, 'alloc', None))
            for j in range(pattern.count(0)): J.append((n, pattern, 'free', j))
    return J


# ------------------------------------------------------------------------------------------------- (b) map

def map_corpus(tier, seed):
    items = []
    nls = netlist.g2_shapes() + (netlist.g3_random(seed, 25) if tier == 'quick' else netlist.g3_random(seed, 600) + netlist.g3_random(seed + 1000, 300, max_in=8, max_gates=30, max_dff=5, max_latch=2))
    for j, nl in enumerate(nls):
        style = ('verilog', 'bench', 'lean', 'vbf')[j % 4]
        for reuse in (False, True):
            for strip in (False, True):
                for capmode in (('u4', 'rnd') if tier == 'quick' else ('u4', 'u8', 'u16', 'rnd', 'rnd2')):
                    items.append((('nl', nl.to_json(), style), reuse, strip, capmode))
    for r in netlist.G4 + netlist.G4_LEAN:
        for reuse in (False, True):
            for strip in (False, True):
                items.append((r, reuse, strip, 'u16'))
                items.append((r, reuse, strip, 'rnd'))
    return items


def cap_vector(c, mode, name):
    n = len(c.lines) + 3
    if mode[0] == 'u': return [int(mode[1:])] * n
    rng = random.Random(f'{name}/{mode}')
    return [4 * rng.randint(1, 6) for _ in range(n)]


def map_item(item):
    recipe, reuse, strip, capmode = item
    rep = common.Report()
    name = recipe[1]['name'] if recipe[0] == 'nl' else recipe[1]
    data = {'mode': 'map', 'recipe': recipe, 'reuse': reuse, 'strip': strip, 'capmode': capmode}
    c = netlist.from_recipe(recipe)
    caps = cap_vector(c, capmode, name)
    try:
        so = SimOps(c, c_caps=caps, c_caps_min=4, c_reuse=reuse, strip_forks=strip)
    except Exception as e:
        if len(c.lines) == 0 or 'too many indices' in str(e): return rep       # circuit without any operation: nothing to map (observation)
        rep.violation(f'map/exception={type(e).__name__}', f'{name} c_reuse={reuse} strip_forks={strip}: SimOps raised {type(e).__name__}: {e}', data)
        return rep
    tb = tables.Tables(so, c, strip)
    rep.counts['maps'] += 1
    rep.counts['ops'] += tb.n
    r, wit, dt = tb.q_live_overlap()
    rep.solver_s += dt; rep.counts['queries_' + str(r)] += 1; rep.counts['obligations'] += 1
    if r == z3.sat:
        rep.violation(f'map/overlap', f'{name} c_reuse={reuse} strip_forks={strip} caps={capmode}: simultaneously live signals overlap or leave [0,c_len): {wit}', data)
    elif r != z3.unsat: rep.error(f'{name}: solver {r}')
    else: rep.counts['discharged'] += 1
    probs = tb.alias_problems(caps, 4)
    rep.counts['obligations'] += 1
    if probs: rep.violation('map/alias', f'{name} c_reuse={reuse} strip_forks={strip}: {probs[0]}', data)
    else: rep.counts['discharged'] += 1
    if r == z3.unsat and not probs:
        rep.sample({'circuit': name, 'c_reuse': reuse, 'strip_forks': strip, 'capacities': capmode, 'ops': tb.n, 'signals': len(tb.live_ranges()), 'c_len': int(so.c_len), 'verdict': 'unsat'}, limit=4)
    return rep


def replay(data):
    if data['mode'] == 'heap': return replay_heap(data)
    recipe = data['recipe']
    c = netlist.from_recipe(recipe)
    name = recipe[1]['name'] if recipe[0] == 'nl' else recipe[1]
    caps = cap_vector(c, data['capmode'], name)
    try: so = SimOps(c, c_caps=caps, c_caps_min=4, c_reuse=data['reuse'], strip_forks=data['strip'])
    except Exception as e: return True, f'SimOps raised {type(e).__name__}: {e}'
    tb = tables.Tables(so, c, data['strip'])
    # plain-Python re-check of the witness class on the real tables
    rng = tb.live_ranges()
    idx = sorted(rng)
    for x in idx:
        if tb.loc[x] < 0 or tb.cap[x] <= 0 or tb.loc[x] + tb.cap[x] > int(so.c_len): return True, f'signal {x} region {(tb.loc[x], tb.cap[x])} outside [0,{int(so.c_len)})'
        for y in idx:
            if x < y and rng[x][0] <= rng[y][1] and rng[y][0] <= rng[x][1] and tb.loc[x] < tb.loc[y] + tb.cap[y] and tb.loc[y] < tb.loc[x] + tb.cap[x]:
                return True, f'signals {x} {(tb.loc[x], tb.cap[x])} live {rng[x]} and {y} {(tb.loc[y], tb.cap[y])} live {rng[y]} overlap'
    probs = tb.alias_problems(caps, 4)
    return bool(probs), str(probs[:1])


def dispatch(job):
    return heap_job(job[1]) if job[0] == 'heap' else map_item(job[1])


def run(tier, seed):
    nmax = 5 if tier == 'quick' else 6
    J = [('heap', j) for j in heap_jobs(nmax)] + [('map', j) for j in map_corpus(tier, seed)]
    rep = common.pmap(dispatch, J, chunksize=2)
    # empty heap satisfies the invariant; reachability twin: a deliberately broken allocator step must be refuted
    if conc_inv(Heap()): rep.error('invariant does not hold for the empty heap')
    orig = Heap.free

    def bad_free(self, loc):
        size = self.chunks[loc]
        if loc + size == self.current_size:
            del self.chunks[loc]; self.current_size -= size
            return
        from bisect import insort_left
        insort_left(self.released, loc)
    Heap.free = bad_free
    try: tw = heap_job((3, (0, 1, 0), 'free', 0))
    finally: Heap.free = orig
    if not tw.violations and not tw.errors: rep.error('reachability twin failed: allocator without coalescing not refuted')
    cov = {
        'states': int(rep.counts['paths']) + int(rep.counts['maps']), 'transitions': int(rep.counts['branches']) + int(rep.counts['paths']) + int(rep.counts['ops']),
        'traces_validated_against_impl': len(rep.violations),
        'obligations': int(rep.counts['obligations']), 'discharged': int(rep.counts['discharged']),
        'heap_paths': int(rep.counts['heap_paths']), 'heap_prestate_shapes_x_ops': len(heap_jobs(nmax)), 'maps_checked': int(rep.counts['maps']),
        'explanation': 'Heap: every feasible path of one real alloc/free from every admitted pre-state shape with symbolic sizes; map: one SMT query per (circuit, options, capacity vector) over the real tables for a conflicting pair / out-of-range region',
        'functions_encoded': common.fn_sha(Heap.alloc, Heap.free, SimOps.__init__),
        'bounds': {'heap chunks': nmax, 'sizes': '[1,65536]', 'capacity vectors': ['uniform 4/8/16', 'seeded per-line multiples of 4 up to 24'], 'options': 'c_reuse x strip_forks'},
        'exhaustive': False,
        'summary': f'{len(heap_jobs(nmax))} heap steps ({rep.counts["heap_paths"]} paths), {rep.counts["maps"]} maps, {rep.counts["obligations"]} obligations, {rep.counts["discharged"]} discharged',
    }
    return LEVEL, rep, cov, ASSUME
