"""C02 - 4-/8-valued simulation follows the documented algebra and is X-sound (E1 lane engine + spec4/spec8 + ref2)."""
import z3

from kyupy import logic, logic_sim
from kyupy.logic_sim import LogicSim

from vlib import common, lanes, netlist, ref2, specmv

LEVEL = 'model_checking'
ASSUME = [
    'circuit structure concrete (corpus G1-G4 as C01); all three bit planes of every input lane symbolic (all 8 resp. 4 values)',
    'oracle spec4/spec8 (vlib/specmv.py) written from the logic.py documentation; complex gates = documented compositions; MUX21 = OR(AND(i0,NOT s),AND(i1,s))',
    'results compared modulo the documented unknown class {X,-}',
    'X-soundness: completions w_f/w_i are arbitrary 0/1 vectors that agree with every non-unknown input on its final/initial component',
    's_ppo_to_ppi for X/- in 8-valued mode is outside the statement (the code\'s own TODO)',
]


def corpus(tier, seed):
    items = []
    for nl in netlist.g1_primitives():
        items.append((('nl', nl.to_json(), 'verilog'), 3))
        items.append((('nl', nl.to_json(), 'bench'), 9))
    for nl in netlist.g2_shapes():
        for style in ('bench', 'verilog', 'lean', 'vbf'):
            items.append((('nl', nl.to_json(), style), 3))
        items.append((('nl', nl.to_json(), 'lean'), 17))
    for j, nl in enumerate((netlist.g3_random(seed, 40) if tier == 'quick' else netlist.g3_random(seed, 700) + netlist.g3_random(seed + 1000, 200, max_in=8, max_gates=24, max_dff=4))):
        items.append((('nl', nl.to_json(), ('bench', 'verilog', 'lean')[j % 3]), (3, 9, 8, 1)[j % 4]))
    for r in netlist.G4: items.append((r, 3))
    out = [(it[0], it[1], m) for it in items for m in (4, 8)]
    # performance options + a second propagation on the same simulator object (fresh stimulus, memory as the first run left it)
    for nl in netlist.g2_shapes():
        for k, style in enumerate(('bench', 'verilog', 'lean')):
            out.append((('nl', nl.to_json(), style), 3, (4, 8)[k % 2], ('reuse2', 'reuse+strip2', 'reuse2')[k]))
    for j, nl in enumerate(netlist.g3_random(seed + 7, 24 if tier == 'quick' else 200)):
        out.append((('nl', nl.to_json(), ('bench', 'verilog', 'lean')[j % 3]), (3, 9)[j % 2], (4, 8)[(j // 2) % 2], ('reuse2', 'reuse+strip2', 'strip', 'reuse')[j % 4]))
    return out


def planes(arr, slot, b, m):
    return (arr[slot, 0, b], arr[slot, 1, b], arr[slot, 2, b] if m == 8 else lanes.ZERO)


def mksim(c, sims, m, opt):
    return LogicSim(c, sims, m=m, c_reuse='reuse' in opt, strip_forks='strip' in opt)


def build(c, sims, m, opt=''):
    s = mksim(c, sims, m, opt)
    ins = lanes.symbolize(s)
    lanes.simulate(s)
    if opt.endswith('2'):
        first = {('first',) + k: v for k, v in ins.items()}
        ins = {}
        for idx in __import__('numpy').ndindex(s.s.shape): s.s[idx] = lanes.LV(lanes.bv(s.s[idx]))
        for i in range(s.s_len):
            for p in range(3):
                for b in range(s.c.shape[-1]):
                    v = z3.BitVec(f'j{i}_p{p}_b{b}', 8)
                    s.s[0, i, p, b] = lanes.LV(v); ins[(i, p, b)] = v
        lanes.simulate(s)
        ins.update(first)
    return s, ins


def obligations(c, s, ins, sims, m, Z=lanes.ZERO, O=lanes.ONES, mkw=None):
    """-> list of (what, slot, byte, bad-lane-mask term), plus the completion variables used."""
    nbytes = s.c.shape[-1]
    alg = specmv.AlgMV(Z, O, m)
    obl, wvars, side = [], {}, []
    for b in range(nbytes):
        mask = lanes.lane_mask(sims, b)
        assign = {i: (ins[(i, 0, b)], ins[(i, 1, b)], ins[(i, 2, b)] if m == 8 else Z) for i in range(s.s_len)}
        spec = ref2.Ref2(c, assign, alg.zero, None, alg=alg).captured()
        wf = {i: mkw(f'wf{i}_b{b}') for i in range(s.s_len)}
        wi = {i: mkw(f'wi{i}_b{b}') for i in range(s.s_len)} if m == 8 else wf
        wvars[b] = (wf, wi)
        for i in range(s.s_len):
            kn = alg.n(alg.unknown(assign[i]))
            side.append(((wf[i] ^ assign[i][0]) & kn & mask) == 0)
            if m == 8: side.append(((wi[i] ^ assign[i][1]) & kn & mask) == 0)
        r_f = ref2.Ref2(c, wf, Z, O).captured()
        r_i = ref2.Ref2(c, wi, Z, O).captured() if m == 8 else r_f
        allknown = O
        for i in range(s.s_len): allknown = allknown & alg.n(alg.unknown(assign[i]))
        for i, sp in spec.items():
            out = planes(s.s[1], i, b, m)
            obl.append(('algebra', i, b, alg.n(alg.same(out, sp)) & mask))
            kn = alg.n(alg.unknown(out))
            obl.append(('xsound-final', i, b, (out[0] ^ r_f[i]) & kn & mask))
            if m == 8: obl.append(('xsound-initial', i, b, (out[1] ^ r_i[i]) & kn & mask))
            obl.append(('known-in-known-out', i, b, allknown & alg.unknown(out) & mask))
    return obl, side, wvars


def concrete(recipe, sims, m, in_bytes, w_bytes, opt=''):
    c = netlist.from_recipe(recipe)
    s = mksim(c, sims, m, opt)
    if opt.endswith('2'):
        for k, v in in_bytes.items():
            if k[0] == 'first': s.s[0, k[1], k[2], k[3]] = v
        s.s_to_c(); s.c_prop(); s.c_to_s()
        s.s[0] = 0
    for k, v in in_bytes.items():
        if k[0] != 'first': s.s[0, k[0], k[1], k[2]] = v
    s.s_to_c(); s.c_prop(); s.c_to_s()
    ins = {(i, p, b): int(s.s[0, i, p, b]) for i in range(s.s_len) for p in range(3) for b in range(s.c.shape[-1])}

    class S: pass
    o = S(); o.c = s.c; o.s_len = s.s_len
    sarr = s.s.astype(object)
    for idx, v in __import__('numpy').ndenumerate(s.s): sarr[idx] = int(v)
    o.s = sarr
    obl, side, _ = obligations(c, o, ins, sims, m, Z=0, O=255, mkw=lambda n: int(w_bytes.get(n, 0)))
    if not all(bool(x) for x in side): return None
    sn = ref2.s_nodes(c)
    return [(what, sn[i].name, b, int(bad) & 255) for what, i, b, bad in obl if int(bad) & 255]


def _check_path(item, rep, eng):
    recipe, sims, m = item[:3]
    opt = item[3] if len(item) > 3 else ''
    name = (recipe[1]['name'] if recipe[0] == 'nl' else recipe[1]) + (f'+{opt}' if opt else '')
    try:
        c = netlist.from_recipe(recipe)
        s, ins = build(c, sims, m, opt)
    except Exception as e:
        try:
            concrete(recipe, sims, m, {}, {}, opt)
            # the code under test does something the lane values cannot follow: concrete stimuli instead (not a solver verdict - said so)
            import random
            rng = random.Random(f'{name}/{m}')
            c0 = netlist.from_recipe(recipe); s0 = mksim(c0, sims, m, opt)
            for _ in range(24):
                mb = {(i, p, b): rng.choice((0, 255, rng.randrange(256))) for i in range(s0.s_len) for p in range(3 if m == 8 else 2) for b in range(s0.c.shape[-1])}
                wb = {}
                for i in range(s0.s_len):
                    for b in range(s0.c.shape[-1]): wb[f'wf{i}_b{b}'] = mb[(i, 0, b)]; wb[f'wi{i}_b{b}'] = mb[(i, 1, b)]
                bad = concrete(recipe, sims, m, mb, wb, opt)
                rep.counts['concrete_fallback_runs'] += 1
                if bad:
                    rep.violation(f'circuit={name}/m{m}/{bad[0][0]}', f'sims={sims} m={m}: (what, node, byte, bad lanes)={bad[0]} (concrete stimulus; the symbolic run was not possible)',
                                  {'recipe': recipe, 'sims': sims, 'm': m, 'opt': opt, 'in_bytes': [[list(k), v] for k, v in mb.items() if v], 'w_bytes': wb})
                    return
            rep.error(f'symbolic run failed but concrete runs did not on {name} m={m}: {type(e).__name__}: {e} (24 concrete stimuli show no mismatch)')
        except Exception as e2:
            rep.violation(f'exception={type(e2).__name__}@{name}/m{m}', f'real code raised {type(e2).__name__}: {e2}',
                          {'recipe': recipe, 'sims': sims, 'm': m, 'opt': opt, 'in_bytes': [], 'w_bytes': {}})
        return
    wv = {}

    def mkw(n):
        wv[n] = z3.BitVec(n, 8)
        return wv[n]
    obl, side, _ = obligations(c, s, ins, sims, m, mkw=mkw)
    rep.counts['circuits'] += 1
    rep.counts['ops'] += len(s.ops)
    rep.counts['obligations'] += len(obl)
    q = lanes.Q(rep, eng=eng)
    q.add(*side)
    if q.check() != z3.sat:
        rep.error(f'assumptions unsatisfiable on {name}')
        return
    r = z3.unsat
    for b in sorted({o[2] for o in obl}):          # one query per byte (bytes are independent lanes)
        r = q.check(z3.Or([bad != 0 for _, _, bb, bad in obl if bb == b]))
        if r != z3.unsat: break
    if r == z3.unsat:
        rep.counts['discharged'] += len(obl)
        rep.sample({'circuit': name, 'm': m, 'sims': sims, 'ops': len(s.ops), 'obligations': len(obl), 'verdict': 'unsat'})
    elif r == z3.sat:
        mdl = q.model()
        mb = lanes.model_bytes(mdl, ins)
        wb = {n: mdl.eval(v, model_completion=True).as_long() for n, v in wv.items()}
        try:
            bad = concrete(recipe, sims, m, mb, wb, opt)
        except Exception as e:
            bad = [('exception', type(e).__name__, 0, 0)]
        if bad:
            kinds = sorted({x[0] for x in bad})
            rep.violation(f'circuit={name}/m{m}/{kinds[0]}', f'sims={sims} m={m}: (what, node, byte, bad lanes)={bad[0]}',
                          {'recipe': recipe, 'sims': sims, 'm': m, 'opt': opt, 'in_bytes': [[list(k), v] for k, v in mb.items() if v], 'w_bytes': wb})
        else:
            rep.error(f'counterexample on {name} m={m} does not replay on the real code (model error)')
    else:
        rep.error(f'solver unknown on {name} m={m}')
    return


def check_item(item):
    """one exploration per item: the real simulator normally has a single path; data-dependent fast paths fork (E2)"""
    rep = common.Report()
    lanes.explore(lambda eng: _check_path(item, rep, eng), rep)
    return rep

def twin(rep):
    """vacuity guard: with a deliberately wrong algebra (AND without controlling-0 rule) the pipeline must find a mismatch."""
    nl = netlist.NL('twin', [('a', 'in'), ('b', 'in'), ('z', 'out')], [('g', 'AND2', ['z'], ['a', 'b'])])
    c = netlist.build(nl, 'verilog')
    refuted = []

    def fn(eng):
        for m in (4, 8):
            s, ins = build(c, 3, m)
            alg = specmv.AlgMV(lanes.ZERO, lanes.ONES, m)
            a = planes_of(ins, 0, m); b = planes_of(ins, 1, m)
            wrong = alg._nary([a, b], lambda x, y: x & y, lambda v: lanes.ZERO, alg.zero)
            q = lanes.Q(rep, eng=eng)
            refuted.append(q.check((alg.n(alg.same(planes(s.s[1], 2, 0, m), wrong)) & 7) != 0) == z3.sat)
    lanes.explore(fn, rep)
    if not any(refuted): rep.error('reachability twin failed')
    rep.counts['twins'] += 1


def planes_of(ins, i, m): return (ins[(i, 0, 0)], ins[(i, 1, 0)], ins[(i, 2, 0)] if m == 8 else lanes.ZERO)


def big_batch(rep):
    """beyond the symbolic bound (<= 17 patterns): one simulation with more than 2^19 patterns against the same stimuli simulated in pieces of 4096 patterns
    (patterns are independent) - concrete, stated as such"""
    import numpy as np
    nl = netlist.NL('big', [('a', 'in'), ('b', 'in'), ('c', 'in'), ('y', 'out'), ('z', 'out')], [('g1', 'AND2', ['t'], ['a', 'b']), ('g2', 'NOR3', ['y'], ['t', 'c', 'a']), ('g3', 'AO21', ['z'], ['t', 'b', 'c'])])
    c = netlist.build(nl, 'verilog')
    rng = np.random.default_rng(11)
    sims = 2 ** 19 + 512
    for m in (4, 8):
        s = LogicSim(c, sims, m=m)
        stim = rng.integers(0, 256, s.s[0].shape, dtype=np.uint8)
        s.s[0] = stim; s.s_to_c(); s.c_prop(); s.c_to_s()
        nb = s.s.shape[-1]
        rep.counts['concrete_large_batch_runs'] += 1
        for a in range(0, nb, 512):
            p = LogicSim(c, 8 * min(512, nb - a), m=m)
            p.s[0] = stim[..., a:a + 512]; p.s_to_c(); p.c_prop(); p.c_to_s()
            if not np.array_equal(p.s[1][:, :3 if m == 8 else 2], s.s[1][:, :3 if m == 8 else 2, a:a + 512]):
                rep.violation(f'large-batch/m{m}', f'm={m}: simulating {sims} patterns at once differs from simulating the same patterns in pieces (first differing byte block at {a})', {'mode': 'bigbatch'})
                break


def replay(data):
    if data.get('mode') == 'bigbatch':
        r = common.Report(); big_batch(r)
        return bool(r.violations), r.violations[0]['what'] if r.violations else 'ok'
    bad = concrete(data['recipe'], data['sims'], data['m'], {tuple(k): v for k, v in data['in_bytes']}, data.get('w_bytes', {}), data.get('opt', ''))
    return bool(bad), str(bad[:2] if bad else 'no mismatch')


def run(tier, seed):
    rep = common.pmap(check_item, sorted(corpus(tier, seed), key=lambda it: -it[1] * (50 if it[0][0] != 'nl' else len(it[0][1]['gates']))), chunksize=1)
    twin(rep)
    big_batch(rep)
    cov = {
        'states': int(rep.counts['circuits']), 'transitions': int(rep.counts['ops']), 'traces_validated_against_impl': len(rep.violations),
        'obligations': int(rep.counts['obligations']), 'discharged': int(rep.counts['discharged']),
        'explanation': 'per (circuit, m, sims): one symbolic run of the real LogicSim; obligations per captured slot and byte: algebra (= spec composition modulo {X,-}), '
                       'xsound-final / xsound-initial (known result component = 2-valued simulation of ANY completion), known-in-known-out; one z3 query per instance over all of them',
        'functions_encoded': common.fn_sha(LogicSim.c_prop, LogicSim.s_to_c, LogicSim.c_to_s, logic.bp4v_and, logic.bp4v_or, logic.bp4v_xor, logic.bp4v_not,
                                           logic.bp8v_and, logic.bp8v_or, logic.bp8v_xor, logic.bp8v_not),
        'bounds': {'m': [4, 8], 'sims': [1, 3, 8, 9, 17], 'g3_random_circuits': 40 if tier == 'quick' else 900},
        'exhaustive': False,
        'summary': f'{rep.counts["circuits"]} instances, {rep.counts["obligations"]} obligations, {rep.counts["discharged"]} discharged',
    }
    return LEVEL, rep, cov, ASSUME
