"""C07 - the published level partition is a valid parallel schedule.
E3: SMT queries over the real SimOps tables - (Q1) no op writes a region that another op of the same level reads or writes,
(Q2) every operand is an interface input / constant or produced in a strictly earlier level.  Q1 and Q2 make all ops of a level commute.
Confirmation on the real simulators: the op rows of every level are permuted (reversed, seeded shuffles) and the real LogicSim runs
symbolically (E1) - z3 proves the results equal for all stimuli; WaveSim/WaveSimCuda run with permuted rows and a permuted thread order
of the mock GPU launcher on concrete stimuli (supplementary)."""
import random

import numpy as np
import z3

import kyupy
from kyupy import sim as ksim, wave_sim
from kyupy.logic_sim import LogicSim
from kyupy.sim import SimOps
from kyupy.wave_sim import WaveSim, WaveSimCuda

from vlib import common, lanes, netlist, tables

LEVEL = 'model_checking'
ASSUME = [
    'tables (ops, level_starts/stops, c_locs, c_caps) are produced by the real SimOps constructor per corpus circuit x option setting x capacity vector; the solver quantifies over op pairs and operands',
    'Q1 + Q2 => ops of one level commute and only depend on earlier levels (each op reads only its operand regions and writes only its output region: footprint lemma L-FP of C03); '
    'threads of different simulations touch different columns',
    'two ops that both write the scratch slot of unconnected outputs are exempt from write-write conflicts (nobody reads it)',
    'permutation confirmation: reversed order and seeded shuffles inside every level (LogicSim: symbolic stimuli, z3 equality; WaveSim: concrete random stimuli, supplementary)',
]


def corpus(tier, seed):
    items = []
    nls = netlist.g2_shapes() + (netlist.g3_random(seed, 30) if tier == 'quick' else netlist.g3_random(seed, 500) + netlist.g3_random(seed + 1000, 200, max_in=8, max_gates=30, max_dff=5, max_latch=2))
    for j, nl in enumerate(nls):
        style = ('verilog', 'bench', 'lean', 'vbf')[j % 4]
        for reuse in (False, True):
            for strip in (False, True):
                items.append((('nl', nl.to_json(), style), reuse, strip))
    for r in netlist.G4 + netlist.G4_LEAN + ((netlist.G4_BIG + netlist.G4_BIG_LEAN) if tier == 'thorough' else []):
        for reuse in (False, True):
            for strip in (False, True):
                items.append((r, reuse, strip))
    return items


def permute_ops(so, mode, rng):
    ops = np.array(so.ops, copy=True)
    for a, b in zip(so.level_starts, so.level_stops):
        idx = list(range(a, b))
        if mode == 'reverse': idx.reverse()
        else: rng.shuffle(idx)
        ops[a:b] = np.asarray(so.ops)[idx]
    return ops


def logic_perm_check(rep, c, name, reuse, strip, recipe):
    lanes.explore(lambda eng: _logic_perm_path(rep, c, name, reuse, strip, recipe), rep)


def _logic_perm_path(rep, c, name, reuse, strip, recipe):
    """E1: list order vs permuted order inside levels, all stimuli"""
    for m in (2, 8):
        ref = LogicSim(c, 3, m=m, c_reuse=reuse, strip_forks=strip)
        rins = lanes.symbolize(ref, gtag='r')
        lanes.simulate(ref)
        for mode in ('reverse', 'shuffle'):
            s = LogicSim(c, 3, m=m, c_reuse=reuse, strip_forks=strip)
            s.ops = permute_ops(s, mode, random.Random(f'{name}/{mode}'))
            lanes.symbolize(s, gtag='p')
            lanes.simulate(s)
            planes = 1 if m == 2 else 3
            bad = [((s.s[1, i, p, 0] ^ ref.s[1, i, p, 0]) & 7) != 0 for i in ref.poppo_s_locs for p in range(planes)]
            rep.counts['paths'] += 1; rep.counts['obligations'] += 1
            q = lanes.Q(rep)
            r = q.check(z3.Or(bad)) if bad else z3.unsat
            if r == z3.unsat: rep.counts['discharged'] += 1
            elif r == z3.sat:
                mb = lanes.model_bytes(q.model(), rins)
                data = {'mode': 'perm', 'recipe': recipe, 'reuse': reuse, 'strip': strip, 'm': m, 'perm': mode, 'in_bytes': [[list(k), v] for k, v in mb.items() if v]}
                ok, what = replay(data)
                if ok: rep.violation(f'schedule/permutation-changes-result', f'{name} c_reuse={reuse} strip_forks={strip} m={m}: {what}', data)
                else: rep.error(f'{name}: permutation counterexample does not replay (depends on stale memory?)')
            else: rep.error('unknown')


class PermLauncher:
    """mock-GPU launcher with a permuted thread order"""
    def __init__(self, launcher, order, cuda):
        self.l, self.order, self.cuda = launcher, order, cuda

    def __getitem__(self, item):
        grid_dim, block_dim = item

        def inner(*args, **kw):
            th = [(gx * block_dim[0] + bx, gy * block_dim[1] + by) for gx in range(grid_dim[0]) for gy in range(grid_dim[1]) for bx in range(block_dim[0]) for by in range(block_dim[1])]
            self.order(th)
            for x, y in th:
                self.cuda.x, self.cuda.y = x, y
                self.l.func(*args, **kw)
        return inner


def wave_perm_check(rep, c, name, reuse, strip):
    """supplementary, concrete: WaveSim with permuted rows, WaveSimCuda with permuted thread order"""
    rng = np.random.default_rng(7)
    nl = len(c.lines)
    d = (rng.integers(0, 40, (1, nl, 2, 2)) / 8.0).astype(np.float32)
    if strip:
        for l in c.lines:
            if l.reader.kind == '__fork__': d[0, l.index] = 0          # statement: zero delay on fork inputs when forks are stripped

    def run(cls, perm=None, order=None):
        w = cls(c, d, sims=3, c_caps=8, c_reuse=reuse, strip_forks=strip)
        r2 = np.random.default_rng(11)
        w.s[0] = r2.integers(0, 2, w.s[0].shape); w.s[2] = r2.integers(0, 2, w.s[2].shape); w.s[1] = r2.integers(-16, 16, w.s[1].shape) / 4.0
        if perm: w.ops = kyupy.cuda.to_device(permute_ops(w, perm, random.Random(name))) if cls is WaveSimCuda else permute_ops(w, perm, random.Random(name))
        if order:
            orig = wave_sim.wave_eval_gpu
            wave_sim.wave_eval_gpu = PermLauncher(orig, order, kyupy.cuda)
            try: w.s_to_c(); w.c_prop(); w.c_to_s()
            finally: wave_sim.wave_eval_gpu = orig
        else:
            w.s_to_c(); w.c_prop(); w.c_to_s()
        return np.array(w.s[3:7]), np.array(w.s[10])
    ref = run(WaveSim)
    variants = [('cpu/reverse', lambda: run(WaveSim, 'reverse')), ('cpu/shuffle', lambda: run(WaveSim, 'shuffle')),
                ('gpu/threads-reversed', lambda: run(WaveSimCuda, None, lambda th: th.reverse())),
                ('gpu/threads-shuffled+rows-reversed', lambda: run(WaveSimCuda, 'reverse', lambda th: random.Random(3).shuffle(th)))]
    for vn, f in variants:
        rep.counts['wave_perm_runs'] += 1
        r = f()
        if not (np.array_equal(r[0], ref[0]) and np.array_equal(r[1], ref[1])):
            rep.violation('schedule/permutation-changes-result', f'{name} c_reuse={reuse} strip_forks={strip}: timing results differ under {vn}', {'mode': 'waveperm', 'variant': vn})


class GuardedAbuf(np.ndarray):
    """accumulation buffer that records writes which do not go through cuda.atomic.add (threads of one launch run concurrently on a GPU:
    a plain read-modify-write of a shared accumulator is a data race under some interleaving)"""
    plain_writes = 0
    privileged = False

    def __setitem__(self, k, v):
        if not GuardedAbuf.privileged: GuardedAbuf.plain_writes += 1
        super().__setitem__(k, v)


def atomic_check(rep):
    """GPU accumulation of switching activity must be indivisible: every update of abuf inside a kernel launch goes through cuda.atomic.add"""
    nl = netlist.NL('acc', [('a', 'in'), ('b', 'in'), ('z', 'out'), ('y', 'out')], [('g1', 'XOR2', ['x'], ['a', 'b']), ('g2', 'INV1', ['z'], ['x']), ('g3', 'AND2', ['y'], ['x', 'a'])])
    c = netlist.build(nl, 'verilog')
    a_ctrl = np.zeros((len(c.lines) + 3, 3), dtype=np.int32); a_ctrl[:, 0] = -1
    for l in range(len(c.lines)): a_ctrl[l] = [l % 2, 3 + l, 50 + l]            # two shared accumulator rows
    rng = np.random.default_rng(3)
    d = (rng.integers(1, 30, (1, len(c.lines), 2, 2)) / 8.0).astype(np.float32)
    res = []
    atomic_cls = kyupy.cuda.atomic
    orig_add = atomic_cls.add
    for cls in (WaveSim, WaveSimCuda):
        w = cls(c, d, sims=3, c_caps=8, a_ctrl=a_ctrl)
        w.s[0, :2] = [[0, 1, 0], [1, 1, 0]]; w.s[2, :2] = [[1, 0, 0], [0, 1, 1]]; w.s[1, :2] = [[1, 2, 3], [2, 1, 5]]
        if cls is WaveSimCuda:
            g = np.asarray(w.abuf).view(GuardedAbuf)
            w.abuf = g
            GuardedAbuf.plain_writes = 0

            def guarded_add(array, idx, value):
                GuardedAbuf.privileged = True
                try: orig_add(array, idx, value)
                finally: GuardedAbuf.privileged = False
            atomic_cls.add = staticmethod(guarded_add)
        try:
            w.s_to_c(); w.c_prop()
        finally:
            atomic_cls.add = orig_add
        res.append(np.array(w.abuf))
    rep.counts['obligations'] += 2
    if GuardedAbuf.plain_writes:
        rep.violation('schedule/non-atomic-accumulation', f'wave_eval_gpu updates the shared accumulation buffer {GuardedAbuf.plain_writes} times without cuda.atomic.add: concurrent (sim, op) threads of a level can lose updates', {'mode': 'atomic'})
    else: rep.counts['discharged'] += 1
    if not np.array_equal(res[0], res[1]): rep.violation('schedule/non-atomic-accumulation', f'accumulated switching activity differs between CPU {res[0].tolist()} and GPU kernel {res[1].tolist()}', {'mode': 'atomic'})
    else: rep.counts['discharged'] += 1


def check_item(item):
    recipe, reuse, strip = item
    rep = common.Report()
    name = recipe[1]['name'] if recipe[0] == 'nl' else recipe[1]
    c = netlist.from_recipe(recipe)
    data = {'mode': 'tables', 'recipe': recipe, 'reuse': reuse, 'strip': strip}
    for caps, cmin in ((1, 1), (16, 4)):
        try:
            so = SimOps(c, c_caps=caps, c_caps_min=cmin, c_reuse=reuse, strip_forks=strip)
        except Exception as e:
            if 'too many indices' in str(e): return rep            # no operation at all (observation: SimOps needs >= 1 op)
            rep.violation(f'schedule/exception={type(e).__name__}', f'{name}: SimOps raised {type(e).__name__}: {e}', data); return rep
        tb = tables.Tables(so, c, strip)
        rep.counts['tables'] += 1; rep.counts['ops'] += tb.n; rep.counts['levels'] += len(so.level_starts)
        for qn, which in (('same-level-conflict', 'q1'), ('operand-not-ready', 'q2')):
            r, wit, dt = tb.chunked(which)
            rep.solver_s += dt; rep.counts['queries_' + str(r)] += 1; rep.counts['obligations'] += 1
            if r == z3.unsat: rep.counts['discharged'] += 1
            elif r == z3.sat:
                ok, what = replay(dict(data, q=qn, caps=caps, cmin=cmin))
                if ok: rep.violation(f'schedule/{qn}', f'{name} c_reuse={reuse} strip_forks={strip}: {what}', dict(data, q=qn, caps=caps, cmin=cmin))
                else: rep.error(f'{name}: {qn} witness {wit} not confirmed on the real tables')
            elif tb.n > 3000: rep.note(f'{name} c_reuse={reuse} strip_forks={strip}: {qn} not covered (solver {r} on a {tb.n}-op table)')
            else: rep.error(f'{name}: solver {r}')
    if len(c.lines) <= 80:
        try:
            logic_perm_check(rep, c, name, reuse, strip, recipe)
            wave_perm_check(rep, c, name, reuse, strip)
        except Exception as e:
            import traceback
            rep.error(f'{name} permutation confirmation: {type(e).__name__}: {e} {traceback.format_exc()[-300:]}')
    if not rep.violations:
        rep.sample({'circuit': name, 'c_reuse': reuse, 'strip_forks': strip, 'ops': tb.n, 'levels': len(so.level_starts), 'verdict': 'Q1, Q2 unsat; permuted runs equal'}, limit=4)
    return rep


def replay(data):
    c = netlist.from_recipe(data['recipe'])
    if data['mode'] == 'perm':
        in_bytes = {tuple(k): v for k, v in data['in_bytes']}
        name = data['recipe'][1]['name'] if data['recipe'][0] == 'nl' else data['recipe'][1]
        res = []
        for perm in (None, data['perm']):
            s = LogicSim(c, 3, m=data['m'], c_reuse=data['reuse'], strip_forks=data['strip'])
            if perm: s.ops = permute_ops(s, perm, random.Random(f'{name}/{perm}'))
            for (i, p, b), v in in_bytes.items(): s.s[0, i, p, b] = v
            s.s_to_c(); s.c_prop(); s.c_to_s(); res.append(s.s[1].copy())
        diff = not np.array_equal(res[0][..., 0] & 7, res[1][..., 0] & 7)
        return diff, f'executing the ops of every level in {data["perm"]} order changes the captured values'
    if data['mode'] == 'atomic':
        r = common.Report(); atomic_check(r)
        return bool(r.violations), r.violations[0]['what'] if r.violations else 'ok'
    if data['mode'] != 'tables': return False, 'not replayable from file'
    so = SimOps(c, c_caps=data['caps'], c_caps_min=data['cmin'], c_reuse=data['reuse'], strip_forks=data['strip'])
    tb = tables.Tables(so, c, data['strip'])
    ops = tb.ops
    if data['q'] == 'same-level-conflict':
        reg = lambda x: (tb.loc[tb.stem[int(x)]], tb.cap[tb.stem[int(x)]])
        ov = lambda a, b: a[0] < b[0] + b[1] and b[0] < a[0] + a[1]
        for i in range(tb.n):
            for j in range(tb.n):
                if i == j or tb.lvl[i] != tb.lvl[j]: continue
                w = reg(ops[i][1])
                if any(ov(w, reg(ops[j][2 + k])) for k in range(4)): return True, f'ops {i} {list(map(int, ops[i][:6]))} and {j} {list(map(int, ops[j][:6]))} are in level {tb.lvl[i]} but op {i} writes what op {j} reads'
                if ov(w, reg(ops[j][1])) and not (ops[i][1] == so.tmp_idx and ops[j][1] == so.tmp_idx): return True, f'ops {i} and {j} of level {tb.lvl[i]} write overlapping regions'
        return False, 'no conflict'
    wl = {}
    for i in range(so.s_len): wl[so.ppi_offset + i] = 0
    wl[so.zero_idx] = 0
    for r, o in enumerate(ops): wl[tb.stem[int(o[1])]] = int(tb.lvl[r])
    for r, o in enumerate(ops):
        for k in range(4):
            x = tb.stem[int(o[2 + k])]
            if wl.get(x, -1) < 0 or wl[x] >= tb.lvl[r]: return True, f'op {r} {list(map(int, o[:6]))} in level {tb.lvl[r]} reads signal {x} which is produced in level {wl.get(x, "never")}'
    return False, 'all operands ready'


def run(tier, seed):
    items = corpus(tier, seed)
    rep = common.pmap(check_item, sorted(items, key=lambda it: -(500 if it[0][0] != 'nl' else len(it[0][1]['gates']))), chunksize=1)
    atomic_check(rep)
    # reachability twin: merging two consecutive levels of a chain must be reported by Q1/Q2
    nl = netlist.NL('twin', [('a', 'in'), ('z', 'out')], [('g0', 'INV1', ['x'], ['a']), ('g1', 'INV1', ['y'], ['x']), ('g2', 'INV1', ['z'], ['y'])])
    c = netlist.build(nl, 'lean')
    so = SimOps(c)
    so.level_starts = so.level_starts[:-1]; so.level_stops = np.concatenate([so.level_stops[:-2], so.level_stops[-1:]])
    tb = tables.Tables(so, c, False)
    if tb.q_operand_not_ready()[0] != z3.sat: rep.error('reachability twin failed: merged levels not reported')
    cov = {
        'states': int(rep.counts['tables']), 'transitions': int(rep.counts['ops']), 'traces_validated_against_impl': int(rep.counts['wave_perm_runs']) + int(rep.counts['paths']),
        'obligations': int(rep.counts['obligations']), 'discharged': int(rep.counts['discharged']), 'levels': int(rep.counts['levels']),
        'explanation': 'states = op tables published by the real SimOps (circuit x options x capacity setting); transitions = ops in them; per table two SMT queries whose free variables are op pairs / operands; '
                       'permuted real runs: LogicSim symbolic (z3 equality), WaveSim / WaveSimCuda concrete incl. permuted mock-GPU thread order',
        'functions_encoded': common.fn_sha(SimOps.__init__, kyupy.MockCuda.jit, WaveSim.c_prop, WaveSimCuda.c_prop, wave_sim.level_eval_cpu),
        'bounds': {'options': 'c_reuse x strip_forks', 'capacity settings': ['LogicSim (1,1)', 'WaveSim (16, min 4)'], 'permutations': ['reverse', 'seeded shuffle']},
        'exhaustive': False,
        'summary': f'{rep.counts["tables"]} tables, {rep.counts["ops"]} ops, {rep.counts["obligations"]} obligations, {rep.counts["discharged"]} discharged',
    }
    return LEVEL, rep, cov, ASSUME
