"""C13 - capture results and switching-activity counts faithfully summarise waveforms.
(a) kernel lemmas L-WSA, L-OVL on the real _wave_eval; (b) boundary lemma on the real wave_capture_cpu / wave_capture_gpu through
c_to_s(time=T) with symbolic waveform entries and symbolic capture time; (c) accumulation with symbolic integer weights through the
real level_eval_cpu / wave_eval_gpu; (d) end-to-end: overflow indicator clear => waveform identical to the unlimited-capacity run."""
import itertools
from fractions import Fraction

import numpy as np
import z3

from kyupy import wave_sim
from kyupy.wave_sim import WaveSim, WaveSimCuda, TMIN, TMAX, TMAX_OVL

from vlib import common, wave, wsim, netlist
from vlib.engine import Engine, T, SI, EngineUnknown, lift_T
from vlib.wave import LUTS, lut_arity, OVL

LEVEL = 'model_checking'
ASSUME = [
    'kernel lemmas on one call of the real _wave_eval (arbitrary well-formed operands incl. operands that carry the overflow marker): L-WSA returned (rise, fall) = transitions of the emitted waveform; '
    'L-OVL product run against capacity 64: marker clear => identical waveform; operand marker => output marker',
    'capture lemma: arbitrary well-formed waveform (optional TMIN, <= 4 finite symbolic entries; arbitrary order for s3..s6/s10, strictly increasing for the value-before-T claim), symbolic capture time, sd = 0',
    'accumulation: weights are symbolic integers (ops columns 7, 8 replaced by symbolic ints after construction), accumulator indices enumerated (distinct / shared / ignored)',
    'sd > 0 capture (math.erf, random sampling) outside the claim; a user a_ctrl needs len(lines)+3 rows (observation: the documented shape (len(lines),3) fails for circuits with unconnected gate outputs)',
    'float model and bounds as C03',
]


def kernel_jobs(tier):
    J = []
    for name in LUTS:
        ar = lut_arity(name)
        if ar == 1: Ks, caps = wave.K_combos(1, 4), (4, 8)
        elif ar == 2: Ks, caps = wave.K_combos(2, 2 if tier == 'quick' else 3), (4, 8)
        elif ar == 3: Ks, caps = (wave.K_combos(3, 1) if tier == 'quick' else wave.K_combos(3, 2, total=4)), (4,)
        else: Ks, caps = (wave.K_combos(4, 1, exact=True) if tier == 'quick' else wave.K_combos(4, 1)), (4,)
        for K in Ks:
            for inits in itertools.product((0, 1), repeat=ar):
                for cap in caps:
                    J.append((name, K, inits, cap, None, False, frozenset({'WF', 'WSA', 'OVL'})))
                # one operand carries the overflow marker
                if sum(K) <= 2 or ar <= 2:
                    terms = [1] * ar; terms[sum(inits) % ar] = OVL
                    J.append((name, K, inits, caps[-1], terms, False, frozenset({'WF', 'WSA', 'OVL'})))
    return J


# ---------------------------------------------------------------------------------------------- capture lemma

CAP_NL = netlist.NL('cap', [('a', 'in'), ('z', 'out')], [('g', 'BUF1', ['z'], ['a'])])


def capture_jobs(tier):
    J = []
    for cls in ('cpu', 'gpu'):
        for n in range(0, 5 if tier == 'thorough' else 4):
            for tmin in (0, 1):
                for term in ('max', 'ovl'):
                    for ordered in (False, True):
                        if n < 2 and ordered: continue
                        J.append((cls, n, tmin, term, ordered))
        for n, tmin in ((3, 0), (2, 1)):          # waveform exactly fills a capacity of 4: the terminator sits in the last slot
            for term in ('max', 'ovl'): J.append((cls, n, tmin, term, 'full4'))
    return J


def _cap_setup(cls, eng_or_none, n, tmin, term, ordered, vals=None, tcap=None):
    c = netlist.build(CAP_NL, 'verilog')
    CAP = 4 if ordered == 'full4' else 8
    if vals is None:
        sw = wsim.SymWave(eng_or_none, cls, c, CAP, {0: '0'}, {})
        w = sw.w
    else:
        w = wsim.CLS[cls](c, np.zeros((1, len(c.lines), 2, 2), dtype=np.float32), sims=1, c_caps=CAP)
    zi = 1                                   # s position of output 'z'
    line = c.s_nodes[zi].ins[0].index
    loc = int(w.c_locs[line])
    return c, w, zi, loc


def capture_job(job):
    cls, n, tmin, term, ordered = job
    rep = common.Report()
    eng = Engine()
    found = []

    def fn(eng):
        c, w, zi, loc = _cap_setup(cls, eng, n, tmin, term, ordered)
        ts = [z3.Real(f'w{k}') for k in range(n)]
        for k, t in enumerate(ts):
            eng.assume(t >= -100, t <= 100)
            if ordered and k: eng.assume(t > ts[k - 1])          # ('full4' is ordered too)
        tc = z3.Real('tcap'); eng.assume(tc >= -200, tc <= 200)
        pos = loc
        if tmin: w.c[pos, 0] = T.lift(TMIN); pos += 1
        for t in ts: w.c[pos, 0] = T(0, t); pos += 1
        w.c[pos, 0] = T.lift(TMAX_OVL if term == 'ovl' else TMAX); pos += 1
        while pos < loc + (4 if ordered == 'full4' else 8): w.c[pos, 0] = T(0, z3.Real(f'junk{pos}')); pos += 1          # arbitrary content behind the terminator
        w.c_to_s(time=T(0, tc))
        s = [w.s[k, zi, 0] for k in range(11)]
        bad = []
        if int(s[3]) != tmin: bad.append(f's[3] (initial value) = {s[3]}, waveform starts at {tmin}')
        if int(s[6]) != (tmin + n) & 1: bad.append(f's[6] (final value) = {s[6]}, waveform ends at {(tmin + n) & 1}')
        if int(s[10]) != (term == 'ovl'): bad.append(f's[10] (overflow indicator) = {s[10]}, terminator is {term}')
        s4, s5 = T.lift(s[4]), T.lift(s[5])
        if n == 0:
            if s4.c != 1 or s5.c != -1: bad.append('no transition: earliest arrival must stay TMAX and latest stabilisation TMIN')
        else:
            if s4.c != 0 or not eng.valid(z3.And(z3.Or([s4.e == t for t in ts]), z3.And([s4.e <= t for t in ts]))): bad.append('s[4] is not the earliest transition time')
            if s5.c != 0 or not eng.valid(z3.And(z3.Or([s5.e == t for t in ts]), z3.And([s5.e >= t for t in ts]))): bad.append('s[5] is not the latest transition time')
        # value just before T: parity of the entries before T (TMIN counts)
        cnt = z3.Sum([z3.If(t < tc, 1, 0) for t in ts]) if ts else z3.IntVal(0)
        want = (cnt + tmin) % 2
        for k in (7, 8):
            v = s[k]
            if not isinstance(v, (int, float, np.integer, np.floating, bool, np.bool_)): bad.append(f's[{k}] is not a number: {v!r}'); continue
            if ordered or n <= 1:
                if not eng.valid(want == int(v)): bad.append(f's[{k}] (captured value) = {int(v)} is not the waveform value just before the capture time')
        rep.counts['obligations'] += 7
        if bad:
            mdl = wsim.grid_model(eng, ts + [tc])
            found.append(({'mode': 'capture', 'cls': cls, 'n': n, 'tmin': tmin, 'term': term, 'ordered': ordered, 'ts': [wsim.fr(mdl, t) for t in ts], 'tcap': wsim.fr(mdl, tc)}, bad[0]))
        else: rep.counts['discharged'] += 7
        return 1
    try: eng.explore(fn)
    except EngineUnknown as e: rep.error(f'capture {job}: {e}')
    except Exception as e:
        import traceback
        rep.error(f'capture {job}: {type(e).__name__}: {e} {traceback.format_exc()[-300:]}')
    rep.counts['paths'] += eng.npaths; rep.counts['branches'] += eng.nbranches; rep.counts['capture_paths'] += eng.npaths; rep.solver_s += eng.tsolve
    for data, detail in found[:1]:
        ok, what = replay(data)
        if ok: rep.violation(f'capture/{cls}', f'{detail}; replay: {what}', data)
        else: rep.error(f'capture {job}: {detail} - does not replay')
    if eng.complete and not found: rep.sample({'capture': cls, 'finite_entries': n, 'starts_with_TMIN': tmin, 'terminator': term, 'ordered': ordered, 'paths': eng.npaths, 'verdict': 'valid on all paths'}, limit=3)
    return rep


def replay_capture(data):
    c, w, zi, loc = _cap_setup(data['cls'], None, data['n'], data['tmin'], data['term'], data['ordered'], vals=True)
    pos = loc
    if data['tmin']: w.c[pos, 0] = TMIN; pos += 1
    for t in data['ts']: w.c[pos, 0] = t; pos += 1
    w.c[pos, 0] = TMAX_OVL if data['term'] == 'ovl' else TMAX; pos += 1
    while pos < loc + (4 if data['ordered'] == 'full4' else 8): w.c[pos, 0] = 3.25; pos += 1
    try: w.c_to_s(time=np.float32(data['tcap']))
    except Exception as e: return True, f'c_to_s raised {type(e).__name__}: {e}'
    s = [float(w.s[k, zi, 0]) for k in range(11)]
    ts = [float(np.float32(t)) for t in data['ts']]; n = len(ts); tmin = data['tmin']
    exp = {3: tmin, 6: (tmin + n) & 1, 10: int(data['term'] == 'ovl'), 4: min(ts) if ts else float(TMAX), 5: max(ts) if ts else float(TMIN)}
    if data['ordered'] or n <= 1:
        exp[7] = exp[8] = (tmin + sum(1 for t in ts if t < float(np.float32(data['tcap'])))) & 1
    bad = {k: (s[k], v) for k, v in exp.items() if s[k] != v}
    return bool(bad), f'capture results (got, expected) by s index: {bad}'


# ---------------------------------------------------------------------------------------------- accumulation

ACC_NL = netlist.NL('acc', [('a', 'in'), ('b', 'in'), ('z', 'out'), ('y', 'out')], [('g1', 'XOR2', ['x'], ['a', 'b']), ('g2', 'INV1', ['z'], ['x']), ('g3', 'AND2', ['y'], ['x', 'a'])])


def acc_jobs(tier):
    J = []
    for cls in ('cpu', 'gpu'):
        for pat in ('distinct', 'shared', 'mixed'):
            for st in (('RF', 'RR') if tier == 'quick' else ('RF', 'RR', 'F1', 'FR')):
                J.append((cls, pat, st))
    return J


def acc_table(c, pat):
    nl = len(c.lines)
    a = np.zeros((nl + 3, 3), dtype=np.int32); a[:, 0] = -1
    for l in range(nl):
        if pat == 'distinct': a[l, 0] = l
        elif pat == 'shared': a[l, 0] = l % 2
        else: a[l, 0] = (-1 if l % 3 == 0 else l % 3)
    return a


def acc_job(job):
    cls, pat, st = job
    rep = common.Report()
    c = netlist.build(ACC_NL, 'verilog')
    eng = Engine(deadline_s=600)
    found = []
    stim = {0: st[0], 1: st[1]}

    def fn(eng):
        sw = wsim.SymWave(eng, cls, c, 16, stim, {'a_ctrl': acc_table(c, pat)})
        w = sw.w
        ops = np.asarray(w.ops).astype(object)
        wv = {}
        for r in range(len(ops)):
            for col in (7, 8):
                v = z3.Int(f'wgt{r}_{col}'); eng.assume(v >= -1000, v <= 1000)
                ops[r, col] = SI(v); wv[(r, col)] = v
            for col in range(7): ops[r, col] = int(ops[r, col])
        w.ops = ops
        w.abuf = np.zeros(np.asarray(w.abuf).shape, dtype=object)
        sw.run()
        exp = {}
        for r in range(len(ops)):
            a_loc = ops[r, 6]
            if a_loc < 0: continue
            prob, init, fin, term = wsim.decode(sw.line_wave(int(ops[r, 1])))
            rises = sum(1 for j in range(len(fin)) if (init + j) & 1 == 0); falls = len(fin) - rises
            exp[a_loc] = exp.get(a_loc, z3.IntVal(0)) + rises * wv[(r, 7)] + falls * wv[(r, 8)]
        bad = None
        for a_loc in range(w.abuf.shape[0]):
            got = SI.ex(w.abuf[a_loc, 0])
            if not eng.valid(got == exp.get(a_loc, z3.IntVal(0))): bad = f'accumulator {a_loc} != weighted count of rising/falling transitions of its lines'
        rep.counts['obligations'] += w.abuf.shape[0]
        if bad:
            mdl = wsim.grid_model(eng, list(sw.dv.values()) + list(sw.tv.values()))
            found.append(({'mode': 'acc', 'cls': cls, 'pat': pat, 'stim': st, 'dvals': [[list(k), wsim.fr(mdl, v)] for k, v in sw.dv.items()], 'tvals': [[k, wsim.fr(mdl, v)] for k, v in sw.tv.items()]}, bad))
        else: rep.counts['discharged'] += w.abuf.shape[0]
        return 1
    try: eng.explore(fn)
    except EngineUnknown as e: rep.note(f'accumulation {job}: not covered ({e})')
    except Exception as e:
        data = {'mode': 'acc', 'cls': cls, 'pat': pat, 'stim': st, 'dvals': [], 'tvals': []}
        ok, what = replay(data)
        if ok: rep.violation(f'accumulate/{cls}', what, data)
        else: rep.error(f'accumulation {job}: {type(e).__name__}: {e}')
    rep.counts['paths'] += eng.npaths; rep.counts['branches'] += eng.nbranches; rep.counts['acc_paths'] += eng.npaths; rep.solver_s += eng.tsolve
    for data, detail in found[:1]:
        ok, what = replay(data)
        if ok: rep.violation(f'accumulate/{cls}', f'{detail}; replay: {what}', data)
        else: rep.error(f'accumulation {job}: {detail} - does not replay')
    if eng.complete and not found: rep.sample({'accumulation': cls, 'accumulator pattern': pat, 'stimulus': st, 'paths': eng.npaths, 'verdict': 'valid on all paths'}, limit=3)
    return rep


def replay_acc(data):
    c = netlist.build(ACC_NL, 'verilog')
    a = acc_table(c, data['pat'])
    nl = len(c.lines)
    for l in range(nl): a[l, 1], a[l, 2] = 3 + 2 * l, 100 + 7 * l
    stim = {0: data['stim'][0], 1: data['stim'][1]}
    dvals = {tuple(k): v for k, v in data['dvals']}; tvals = {int(k): v for k, v in data['tvals']}
    try:
        w = wsim.concrete_wave(data['cls'], c, 16, stim, {'a_ctrl': a}, dvals, tvals)
    except Exception as e:
        return True, f'propagation with an accumulation table raised {type(e).__name__}: {e}'
    exp = {}
    for op in np.asarray(w.ops):
        if op[6] < 0: continue
        loc, cap = int(w.c_locs[op[1]]), int(w.c_caps[op[1]])
        _, init, fin, _ = wsim.decode_f([w.c[loc + j, 0] for j in range(cap)])
        rises = sum(1 for j in range(len(fin)) if (init + j) & 1 == 0)
        exp[int(op[6])] = exp.get(int(op[6]), 0) + rises * int(op[7]) + (len(fin) - rises) * int(op[8])
    got = {k: int(np.asarray(w.abuf)[k, 0]) for k in range(np.asarray(w.abuf).shape[0])}
    bad = {k: (got[k], exp.get(k, 0)) for k in got if got[k] != exp.get(k, 0)}
    return bool(bad), f'accumulators (got, expected): {bad}'


def replay(data):
    if data.get('mode') == 'capture': return replay_capture(data)
    if data.get('mode') == 'acc': return replay_acc(data)
    if data.get('mode') in ('boundary', 'e2e', 'glue'): return wsim.replay(data)
    prob = wave.concrete_lemma(data)
    return bool(prob), str(prob)


def run(tier, seed):
    J = kernel_jobs(tier)
    J.sort(key=lambda j: -(sum(j[1]) + 1) ** len(j[1]))
    rep = common.pmap(wave.kernel_job, J, chunksize=1)
    rep.merge(common.pmap(capture_job, capture_jobs(tier), chunksize=1))
    rep.merge(common.pmap(acc_job, acc_jobs(tier), chunksize=1))
    rep.merge(common.pmap(wsim.e2e_job, wsim.e2e_jobs(tier, seed, {'OVLID'}, light=True), chunksize=1))
    rep.merge(common.pmap(wsim.glue_job, wsim.glue_jobs(tier, seed), chunksize=4))          # schedule / memory-map obligations the induction relies on
    # reachability twin: a capture expectation that is off by one must be refuted
    tw = replay_capture({'cls': 'cpu', 'n': 2, 'tmin': 1, 'term': 'max', 'ordered': True, 'ts': [1.0, 2.0], 'tcap': 1.5})
    if tw[0]: rep.error(f'capture replay oracle disagrees with the unchanged code on a plain case: {tw[1]}')
    cov = {
        'states': int(rep.counts['paths']), 'transitions': int(rep.counts['branches']) + int(rep.counts['paths']),
        'traces_validated_against_impl': int(rep.counts['concolic_runs']),
        'obligations': int(rep.counts['obligations']), 'discharged': int(rep.counts['discharged']), 'kernel_jobs': len(J),
        'capture_paths': int(rep.counts['capture_paths']), 'accumulation_paths': int(rep.counts['acc_paths']), 'e2e_paths': int(rep.counts['e2e_paths']),
        'explanation': 'states = completed symbolic paths through _wave_eval (product run vs capacity 64), wave_capture_cpu/gpu (via c_to_s) and whole propagations with symbolic accumulation weights',
        'functions_encoded': common.fn_sha(wave_sim._wave_eval, wave_sim.wave_capture_cpu, wave_sim.level_eval_cpu, WaveSim.c_to_s, WaveSimCuda.c_to_s),
        'bounds': {'K per input': {'arity1': 4, 'arity2': 2 if tier == 'quick' else 3, 'arity3': 1 if tier == 'quick' else '2 (<= 4 overall)', 'arity4': 1}, 'caps': [4, 8], 'capture entries': '<= 3 (quick) / 4 (thorough)', 'weights': '[-1000,1000] symbolic'},
        'exhaustive': False,
        'summary': f'{len(J)} kernel jobs, {rep.counts["paths"]} paths, {rep.counts["obligations"]} obligations, {rep.counts["discharged"]} discharged',
    }
    return LEVEL, rep, cov, ASSUME
