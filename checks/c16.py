"""C16 - the fault-injection callback sees and controls every evaluated signal (E1 lane engine + cut-oracle)."""
import numpy as np
import z3

from kyupy.logic_sim import LogicSim

from vlib import common, lanes, netlist, ref2, specmv

LEVEL = 'model_checking'
ASSUME = [
    'default simulator options for the whole corpus; the hand-made shapes additionally under c_reuse / strip_forks (with stripped forks only stems are evaluated, a stem injection reaches all its branches)',
    'circuit structure concrete (G2 shapes, G1 subset, seeded G3); stimuli and injected values fully symbolic (all planes, all lanes)',
    'oracle: ref2 / spec4 / spec8 of the circuit in which the injected line is cut and driven by the injected variables',
    'call trace (who is called, in which order, with which Line) does not depend on signal data: established on one concrete run per (circuit, m)',
    'ops whose output pin is unconnected (scratch slot) have no Line to report and are left out of the trace comparison',
]


def corpus(tier, seed):
    items = []
    nls = netlist.g2_shapes() + netlist.g1_primitives()[::7] + netlist.g3_random(seed, 12 if tier == 'quick' else 250, max_gates=8 if tier == 'quick' else 12)
    for j, nl in enumerate(nls):
        style = ('verilog', 'vbf', 'bench', 'lean')[j % 4]
        nlines = len(netlist.build(nl, style).lines) + 1
        optl = [(False, False)] + ([(True, False), (False, True), (True, True)] if j < len(netlist.g2_shapes()) and j % 3 == 0 else [])      # every third hand-made shape (all four styles in turn) also under the performance options
        for m in (2, 4, 8):
            for opts in optl:
                for ch in range(0, nlines, 10):
                    items.append((('nl', nl.to_json(), style), m, ch, opts))
    return items


def _alg(m, Z, O):
    return ref2.Alg2(Z, O) if m == 2 else specmv.AlgMV(Z, O, m)


def _val(m, f, i, a, Z):
    return f if m == 2 else (f, i, a if m == 8 else Z)


def _captured(c, m, assign, cut, Z, O):
    alg = _alg(m, Z, O)
    zero = Z if m == 2 else alg.zero
    return ref2.Ref2(c, assign, zero, O, cut=cut, alg=alg).captured(), alg


def _bad_lanes(m, alg, out_planes, spec, O):
    if m == 2: return out_planes[0] ^ spec
    return alg.n(alg.same((out_planes[0], out_planes[1], out_planes[2]), spec))


def trace_check(recipe, m, opts=(False, False)):
    """concrete run with a recording callback -> list of problems"""
    c = netlist.from_recipe(recipe)
    s = LogicSim(c, 8, m=m, c_reuse=opts[0], strip_forks=opts[1])
    rng = np.random.default_rng(1)
    s.s[0] = rng.integers(0, 256, s.s[0].shape, dtype=np.uint8)
    calls = []
    s.s_to_c()
    s.c_prop(lambda line, view: calls.append((line, view, np.array(view, copy=True))))
    exp = [c.lines[int(op[1])] for op in s.ops if int(op[1]) < len(c.lines)]
    probs = []
    if len(calls) != len(exp): probs.append(f'{len(calls)} callback calls for {len(exp)} evaluated signals')
    for k, ((line, view, snap), e) in enumerate(zip(calls, exp)):
        if line is not e: probs.append(f'call {k}: got {line!r} expected line {e.index}'); break
        if not isinstance(view, np.ndarray) or view.shape != (s.mdim, s.c.shape[-1]): probs.append(f'call {k}: view shape {getattr(view, "shape", None)}'); break
        if not np.shares_memory(view, s.c): probs.append(f'call {k}: values are not a view of the signal memory'); break
        if not opts[0] and not np.array_equal(snap, s.c[s.c_locs[e.index]]): probs.append(f'call {k}: values passed are not the freshly computed values of line {e.index}'); break
    if probs: return probs, len(exp)
    # any callable is a callback: an object with __call__ that happens to be falsy (an empty recorder list), and one that returns a value
    class Recorder(list):
        def __call__(self, line, view): self.append(line.index)
    rec = Recorder()
    s2 = LogicSim(c, 8, m=m, c_reuse=opts[0], strip_forks=opts[1]); s2.s[0] = s.s[0]; s2.s_to_c(); s2.c_prop(rec)
    if list(rec) != [e.index for e in exp]: probs.append(f'a callable recorder object (empty list subclass) got {len(rec)} calls for {len(exp)} evaluated signals')
    # cycle(k): the callback is invoked in every one of the k propagations, whatever it returns
    cnt = []
    def cb_true(line, view):
        cnt.append(line.index); return True
    s3 = LogicSim(c, 8, m=m, c_reuse=opts[0], strip_forks=opts[1]); s3.s[0] = s.s[0]; s3.cycle(3, cb_true)
    if cnt != [e.index for e in exp] * 3: probs.append(f'cycle(3, callback returning True): {len(cnt)} calls, expected 3 x {len(exp)}')
    return probs, len(exp)


def run_injected(c, m, sims, target, Z=None, opts=(False, False)):
    """symbolic run with injection at line index `target` (None: untouched callback). -> sim, ins, inj planes"""
    s = LogicSim(c, sims, m=m, c_reuse=opts[0], strip_forks=opts[1])
    ins = lanes.symbolize(s)
    nbytes = s.c.shape[-1]
    inj = {(p, b): z3.BitVec(f'j_p{p}_b{b}', 8) for p in range(s.mdim) for b in range(nbytes)}
    seen = []

    def cb(line, view):
        seen.append(line.index)
        if target is not None and line.index == target:
            for p in range(s.mdim):
                for b in range(nbytes): view[p, b] = lanes.LV(inj[(p, b)])
    s.s_to_c(); s.c_prop(cb); s.c_to_s()
    s.s = lanes.norm(s.s)
    return s, ins, inj, seen


def concrete(recipe, m, sims, target, in_bytes, inj_bytes, opts=(False, False)):
    c = netlist.from_recipe(recipe)
    s = LogicSim(c, sims, m=m, c_reuse=opts[0], strip_forks=opts[1])
    for (i, p, b), v in in_bytes.items(): s.s[0, i, p, b] = v
    nbytes = s.c.shape[-1]

    def cb(line, view):
        if target is not None and line.index == target:
            for p in range(s.mdim):
                for b in range(nbytes): view[p, b] = inj_bytes.get((p, b), 0)
    s.s_to_c(); s.c_prop(cb); s.c_to_s()
    bad = []
    sn = ref2.s_nodes(c)
    for b in range(nbytes):
        mask = lanes.lane_mask(sims, b)
        assign = {i: _val(m, int(s.s[0, i, 0, b]), int(s.s[0, i, 1, b]), int(s.s[0, i, 2, b]), 0) for i in range(s.s_len)}
        cut = {} if target is None else {target: _val(m, inj_bytes.get((0, b), 0), inj_bytes.get((1, b), 0), inj_bytes.get((2, b), 0), 0)}
        cap, alg = _captured(c, m, assign, cut, 0, 255)
        for i, sp in cap.items():
            out = (int(s.s[1, i, 0, b]), int(s.s[1, i, 1, b]), int(s.s[1, i, 2, b]))
            if _bad_lanes(m, alg, out, sp, 255) & mask: bad.append((sn[i].name, b, out, sp))
    return bad


def _check_item_path(item, rep, eng):
    recipe, m, ch, opts = item
    name = recipe[1]['name']
    sims = 3
    try:
        probs, ncalls = trace_check(recipe, m, opts) if ch == 0 else ([], 0)
    except Exception as e:
        rep.violation('callback-arguments', f'{name} m={m} options {opts}: c_prop(inject_cb) raised {type(e).__name__}: {e}', {'recipe': recipe, 'm': m, 'mode': 'trace', 'opts': list(opts)})
        return
    rep.counts['trace_runs'] += (ch == 0)
    rep.counts['callback_calls'] += ncalls
    if probs:
        rep.violation('callback-arguments', f'{name} m={m} options (c_reuse, strip_forks)={opts}: {probs[0]}', {'recipe': recipe, 'm': m, 'mode': 'trace', 'opts': list(opts)})
        return
    c = netlist.from_recipe(recipe)
    targets = ([None] + [l.index for l in c.lines])[ch:ch + 10]
    # reference run without any callback (for "untouched changes nothing")
    s0 = LogicSim(c, sims, m=m, c_reuse=opts[0], strip_forks=opts[1])
    ins0 = lanes.symbolize(s0)
    lanes.simulate(s0)
    for target in targets:
        try:
            s, ins, inj, seen = run_injected(c, m, sims, target, opts=opts)
        except Exception as e:
            rep.error(f'{name} m={m} target={target}: symbolic run raised {type(e).__name__}: {e}')
            continue
        rep.counts['paths'] += 1
        rep.counts['ops'] += len(s.ops)
        bad = []
        for b in range(s.c.shape[-1]):
            mask = lanes.lane_mask(sims, b)
            if target is None:
                for i in s.poppo_s_locs:
                    for p in range(3): bad.append(((s.s[1, i, p, b] ^ s0.s[1, i, p, b]) & mask) != 0)
            else:
                if target not in seen:
                    continue    # line never evaluated (driver unsupported) - nothing to inject
                assign = {i: _val(m, ins[(i, 0, b)], ins[(i, 1, b)], ins[(i, 2, b)], lanes.ZERO) for i in range(s.s_len)}
                cut = {target: _val(m, inj[(0, b)], inj.get((1, b)), inj.get((2, b)), lanes.ZERO)}
                cap, alg = _captured(c, m, assign, cut, lanes.ZERO, lanes.ONES)
                for i, sp in cap.items():
                    out = (s.s[1, i, 0, b], s.s[1, i, 1, b], s.s[1, i, 2, b])
                    bad.append((_bad_lanes(m, alg, out, sp, lanes.ONES) & mask) != 0)
        if not bad: continue
        rep.counts['obligations'] += len(bad)
        q = lanes.Q(rep, eng=eng)
        r = q.check(z3.Or(bad))
        if r == z3.unsat:
            rep.counts['discharged'] += len(bad)
            if target is not None: rep.sample({'circuit': name, 'm': m, 'injected_line': target, 'obligations': len(bad), 'verdict': 'unsat'}, limit=4)
        elif r == z3.sat:
            mdl = q.model()
            mb = lanes.model_bytes(mdl, ins)
            ib = {k: mdl.eval(v, model_completion=True).as_long() for k, v in inj.items()}
            data = {'recipe': recipe, 'm': m, 'mode': 'inject', 'sims': sims, 'target': target, 'opts': list(opts), 'in_bytes': [[list(k), v] for k, v in mb.items() if v],
                    'inj_bytes': [[list(k), v] for k, v in ib.items()]}
            ok, what = replay(data)
            if ok: rep.violation(f'inject/{name}/m{m}', what, data)
            else: rep.error(f'{name} m={m} target={target}: counterexample does not replay')
            break
        else:
            rep.error(f'{name} m={m}: solver unknown')
    return


def check_item(item):
    rep = common.Report()
    lanes.explore(lambda eng: _check_item_path(item, rep, eng), rep)
    return rep

def replay(data):
    if data['mode'] == 'trace':
        try:
            probs, _ = trace_check(data['recipe'], data['m'], tuple(data.get('opts', (False, False))))
        except Exception as e:
            return True, f'c_prop(inject_cb) raised {type(e).__name__}: {e}'
        return bool(probs), str(probs[:1])
    in_bytes = {tuple(k): v for k, v in data['in_bytes']}
    if data['target'] is None:
        # untouched callback must equal no callback
        c = netlist.from_recipe(data['recipe'])
        res = []
        for cb in (None, lambda l, v: None):
            o_ = tuple(data.get('opts', (False, False)))
            s = LogicSim(c, data['sims'], m=data['m'], c_reuse=o_[0], strip_forks=o_[1])
            for (i, p, b), v in in_bytes.items(): s.s[0, i, p, b] = v
            s.s_to_c(); s.c_prop(cb) if cb else s.c_prop(); s.c_to_s()
            res.append(s.s[1].copy())
        diff = not np.array_equal(res[0], res[1])
        return diff, 'untouched callback changes the results' if diff else 'no difference'
    bad = concrete(data['recipe'], data['m'], data['sims'], data['target'], in_bytes, {tuple(k): v for k, v in data['inj_bytes']}, tuple(data.get('opts', (False, False))))
    return bool(bad), f'injection at line {data["target"]}: (node, byte, simulated planes, expected)={bad[:1]}'


def run(tier, seed):
    rep = common.pmap(check_item, corpus(tier, seed), chunksize=1)
    cov = {
        'states': int(rep.counts['paths']), 'transitions': int(rep.counts['ops']), 'traces_validated_against_impl': int(rep.counts['trace_runs']),
        'obligations': int(rep.counts['obligations']), 'discharged': int(rep.counts['discharged']), 'callback_calls_checked': int(rep.counts['callback_calls']),
        'explanation': 'states = symbolic runs (circuit x logic x injected line incl. "untouched"); each decides by z3, for all stimuli and all injected values, that s[1] equals the oracle of the cut circuit',
        'functions_encoded': common.fn_sha(LogicSim.c_prop),
        'bounds': {'m': [2, 4, 8], 'sims': 3, 'circuits': 'G2 + every 7th G1 + seeded G3 (<=8 gates)', 'injected lines': 'every line of every circuit'},
        'exhaustive': False,
        'summary': f'{rep.counts["paths"]} symbolic runs, {rep.counts["obligations"]} obligations, {rep.counts["discharged"]} discharged, {rep.counts["trace_runs"]} traces',
    }
    return LEVEL, rep, cov, ASSUME
