"""C06 - results do not depend on performance options, lane position or code path.
LogicSim (E1): symbolic runs of the real simulator under every option setting / batch size; z3 proves the captured terms equal for all
stimuli; lane non-interference with a symbolic lane index.  WaveSim (E2): product runs through the public API (CPU vs GPU kernels,
c_reuse, strip_forks with zero fork-input delays, batch sizes, lane position, c_prop(sims=k), delay-dataset selection)."""
import itertools

import numpy as np
import z3

from kyupy import wave_sim, sim as ksim
from kyupy.logic_sim import LogicSim
from kyupy.wave_sim import WaveSim, WaveSimCuda

from vlib import common, lanes, netlist, wsim, ref2
from vlib.engine import Engine, T, EngineUnknown

LEVEL = 'model_checking'
ASSUME = [
    'LogicSim: circuit structure enumerated (G2 shapes incl. scratch-slot shapes, seeded G3, G4); all stimuli symbolic; initial signal memory arbitrary (different garbage per run)',
    'WaveSim: small circuits through the public API, all delays and input times symbolic (fork-input lines have zero delay when strip_forks is compared, as the statement says); sd = 0',
    'delay-dataset selection mode 2 (pseudo-random pick per gate) is outside the claim ("that dataset" is undefined there); note: with numpy 2 mode 2 raises OverflowError as soon as more than one dataset is passed (observation)',
    'sd > 0 capture: CPU and GPU sample with different seeds by design (outside the claim)',
]

OPTS = [(False, False), (True, False), (False, True), (True, True)]


def logic_corpus(tier, seed):
    items = []
    nls = netlist.g2_shapes() + scratch_shapes() + netlist.g3_random(seed, 30 if tier == 'quick' else 600)
    for j, nl in enumerate(nls):
        for style in (('verilog', 'bench', 'lean', 'vbf') if tier == 'thorough' or j < 30 else (('verilog', 'bench', 'lean', 'vbf')[j % 4],)):
            for m in (2, 4, 8):
                items.append((('nl', nl.to_json(), style), m))
    for r in netlist.G4:
        for m in (2, 8): items.append((r, m))
    return items


def scratch_shapes():
    """gates with unconnected outputs next to complex gates that need the scratch slots, at various depths"""
    S = []
    for depth in (1, 2, 3):
        chain = [(f'c{k}', 'INV1', [f'x{k + 1}'], [f'x{k}']) for k in range(depth)]
        S.append(netlist.NL(f'scratch{depth}', [('a', 'in'), ('b', 'in'), ('z', 'out'), ('y', 'out'), ('w', 'out')],
                            [('g0', 'AND2', ['x0'], ['a', 'b'])] + chain +
                            [('gd', 'XOR2', [None], [f'x{depth}', 'a']), ('g4', 'BUF1', ['z'], [f'x{depth}']), ('g5', 'AO21', ['y'], ['a', 'b', 'x0']),
                             ('g6', 'MUX21', ['w'], [f'x{depth}', 'x0', 'b']), ('g7', 'OAI22', ['v'], ['w', 'y', 'a', 'b']), ('g8', 'NOR2', [None], ['v', 'z'])]))
    return S


def _logic_item_path(item, rep, eng):
    recipe, m = item
    name = recipe[1]['name'] if recipe[0] == 'nl' else recipe[1]
    c = netlist.from_recipe(recipe)
    runs = {}
    for (reuse, strip) in OPTS:
        for sims in ((3, 9) if (reuse, strip) == (False, False) else (3,)):
            try:
                s = LogicSim(c, sims, m=m, c_reuse=reuse, strip_forks=strip)
                ins = lanes.symbolize(s, gtag=f'o{int(reuse)}{int(strip)}s{sims}')
                lanes.simulate(s)
            except Exception as e:
                data = {'mode': 'logic', 'recipe': recipe, 'm': m, 'reuse': reuse, 'strip': strip, 'sims': sims, 'in_bytes': []}
                ok, what = replay(data)
                if ok: rep.violation(f'logic/exception={type(e).__name__}/c_reuse={reuse},strip_forks={strip}', f'{name} m={m}: {what}', data)
                else: rep.error(f'{name} m={m} {reuse},{strip}: {type(e).__name__}: {e}')
                return
            runs[(reuse, strip, sims)] = (s, ins)
            rep.counts['paths'] += 1; rep.counts['ops'] += len(s.ops)
    ref, rins = runs[(False, False, 3)]
    planes = 1 if m == 2 else (2 if m == 4 else 3)
    for key, (s, ins) in runs.items():
        if key == (False, False, 3): continue
        bad = []
        for i in ref.poppo_s_locs:
            for p in range(planes):
                bad.append(((s.s[1, i, p, 0] ^ ref.s[1, i, p, 0]) & 7) != 0)
        rep.counts['obligations'] += len(bad)
        q = lanes.Q(rep, eng=eng)
        r = q.check(z3.Or(bad)) if bad else z3.unsat
        if r == z3.unsat: rep.counts['discharged'] += len(bad)
        elif r == z3.sat:
            mb = lanes.model_bytes(q.model(), rins)
            data = {'mode': 'logic', 'recipe': recipe, 'm': m, 'reuse': key[0], 'strip': key[1], 'sims': key[2], 'in_bytes': [[list(k), v] for k, v in mb.items() if v]}
            ok, what = replay(data)
            if ok: rep.violation(f'logic/c_reuse={key[0]},strip_forks={key[1]},sims={key[2]}/m{m}/{name}', f'{name} m={m}: {what}', data)
            else:
                # the difference may depend on stale signal memory (garbage): replay with the model's garbage is not possible on a fresh simulator -> try a second propagation
                rep.error(f'{name} m={m} options {key}: counterexample does not replay on a fresh simulator')
        else: rep.error(f'{name}: solver unknown')
    # lane non-interference with a symbolic lane index (reference options)
    s2 = LogicSim(c, 8, m=m); ins2 = lanes.symbolize(s2, tag='k'); lanes.simulate(s2)
    s1 = LogicSim(c, 8, m=m); ins1 = lanes.symbolize(s1, tag='i'); lanes.simulate(s1)
    j = z3.BitVec('lane', 8)
    bit = z3.BitVecVal(1, 8) << j
    q = lanes.Q(rep, eng=eng)
    q.add(z3.ULT(j, 8))
    for k in ins1:
        if k[1] < planes: q.add(((ins1[k] ^ ins2[k]) & bit) == 0)
    bad = [((s1.s[1, i, p, 0] ^ s2.s[1, i, p, 0]) & bit) != 0 for i in s1.poppo_s_locs for p in range(planes)]
    rep.counts['obligations'] += 1
    r = q.check(z3.Or(bad)) if bad else z3.unsat
    if r == z3.unknown:          # (seen under heavy machine load) the same claim lane by lane: eight queries without the symbolic shift
        rs = [q.check(j == k, z3.Or(bad)) for k in range(8)]
        r = z3.sat if any(x == z3.sat for x in rs) else (z3.unsat if all(x == z3.unsat for x in rs) else z3.unknown)
    if r == z3.unsat: rep.counts['discharged'] += 1
    elif r == z3.sat: rep.violation(f'logic/lane-interference/{name}', f'{name} m={m}: a lane\'s result depends on other lanes', {'mode': 'lane', 'recipe': recipe, 'm': m})
    else: rep.error('lane query unknown')
    rep.sample({'circuit': name, 'm': m, 'settings compared': [list(k) for k in runs], 'verdict': 'unsat'}, limit=3)
    return


def logic_item(item):
    rep = common.Report()
    lanes.explore(lambda eng: _logic_item_path(item, rep, eng), rep)
    return rep

def replay_logic(data):
    c = netlist.from_recipe(data['recipe'])
    in_bytes = {tuple(k): v for k, v in data['in_bytes']}
    res = []
    for reuse, strip, sims in ((False, False, 3), (data['reuse'], data['strip'], data['sims'])):
        try:
            s = LogicSim(c, sims, m=data['m'], c_reuse=reuse, strip_forks=strip)
        except Exception as e:
            return True, f'LogicSim(c_reuse={reuse}, strip_forks={strip}) raised {type(e).__name__}: {e}'
        for (i, p, b), v in in_bytes.items():
            if b < s.s.shape[-1]: s.s[0, i, p, b] = v
        try:
            s.s_to_c(); s.c_prop(); s.c_to_s()
        except Exception as e:
            return True, f'propagation with c_reuse={reuse}, strip_forks={strip} raised {type(e).__name__}: {e}'
        res.append(s)
    a, b = res
    planes = 1 if data['m'] == 2 else (2 if data['m'] == 4 else 3)
    sn = c.s_nodes
    bad = [(sn[i].name, p, int(a.s[1, i, p, 0]) & 7, int(b.s[1, i, p, 0]) & 7) for i in a.poppo_s_locs for p in range(planes) if (int(a.s[1, i, p, 0]) ^ int(b.s[1, i, p, 0])) & 7]
    return bool(bad), f'c_reuse={data["reuse"]} strip_forks={data["strip"]} sims={data["sims"]}: (node, plane, default options, this setting)={bad[:2]}'


# ------------------------------------------------------------------------------------------------ WaveSim product runs

W_NLS = [wsim.E2E_NLS[2], wsim.E2E_NLS[3], wsim.E2E_NLS[0]]
# an output that starts at 1 and receives four transitions: with capacity 4 the third is dropped, the fourth refills the waveform and the
# overflow marker lands in the very last slot
OVL_NL = netlist.NL('xnor4ovl', [('a', 'in'), ('b', 'in'), ('c', 'in'), ('d', 'in'), ('z', 'out')], [('g', 'XNOR4', ['z'], ['a', 'b', 'c', 'd'])])


def fork_input_lines(c):
    return [l.index for l in c.lines if l.reader.kind == '__fork__']


def wave_jobs(tier):
    J = []
    for k, nl in enumerate(W_NLS):
        sts = ['RF', 'FR', 'R1'] if tier == 'thorough' else ['RF']
        for st in sts:
            J.append((nl.to_json(), st, 'options'))
            for cls in ('cpu', 'gpu'):
                J.append((nl.to_json(), st, f'sims:{cls}'))
                for sel in (0, 1): J.append((nl.to_json(), st, f'datasets:{cls}:{sel}'))
    return [(OVL_NL.to_json(), 'RRRR', 'options:4')] + J          # the longest job first


def _results(sw, lane=0):
    w = sw.w
    return {(k, int(i)): w.s[k, int(i), lane] for i in w.poppo_s_locs for k in (3, 4, 5, 6, 7, 10)}


def _same(eng, a, b):
    for k in a:
        x, y = a[k], b[k]
        if isinstance(x, T) or isinstance(y, T):
            x, y = T.lift(x), T.lift(y)
            if x.c != y.c or (x.c == 0 and not eng.valid(x.e == y.e)): return k
        elif float(x) != float(y): return k
    return None


class SymWaveN(wsim.SymWave):
    """SymWave with several lanes: stimulus placed in lane `lane`, the other lanes get their own symbolic stimuli"""
    def __init__(self, eng, cls, c, caps, stim, opts, nsims, lane, dvars, tvars, ndata=1, tag=''):
        self.c_, self.cls, self.caps, self.stim, self.opts = c, cls, caps, stim, opts
        nl = len(c.lines)
        self.dv = dvars
        d = np.empty((ndata, nl, 2, 2), dtype=object)
        for k in range(ndata):
            for l in range(nl):
                for p in range(2):
                    for q in range(2): d[k, l, p, q] = T(0, self.dv[(k, l, p, q)])
        self.w = w = wsim.CLS[cls](c, d, sims=nsims, c_caps=caps, **opts)
        from vlib.engine import lift_T
        w.c = lift_T(np.asarray(w.c))
        s = np.zeros(np.asarray(w.s).shape, dtype=object)
        self.tv = tvars
        for ln in range(nsims):
            for i, v in stim.items():
                if ln == lane:
                    ini, fin = wsim.VAL[v]; t = self.tv[i]
                else:               # other lanes hold constants (no transitions: no extra branching), different per lane
                    ini = fin = (ln + i) % 2
                    t = z3.RealVal(ln)
                s[0, i, ln] = ini; s[2, i, ln] = fin; s[1, i, ln] = T(0, t)
        w.s = s


def wave_job(job):
    nlj, st, variant = job
    rep = common.Report()
    nl = netlist.NL.from_json(nlj)
    c = netlist.build(nl, 'verilog')
    ins = wsim._in_slots(c)
    stim = {i: st[k] for k, i in enumerate(ins)}
    eng = Engine(timeout_ms=60000, deadline_s=900)
    found = []
    fl = set(fork_input_lines(c))

    def mkvars(eng, ndata, zero_forks):
        dv = {}
        for k in range(ndata):
            for l in range(len(c.lines)):
                for p in range(2):
                    for q in range(2):
                        if zero_forks and l in fl: dv[(k, l, p, q)] = z3.RealVal(0)
                        else:
                            v = z3.Real(f'd{k}_{l}_{p}{q}'); eng.assume(v >= 0, v <= 100); dv[(k, l, p, q)] = v
        tv = {}
        for i in stim:
            t = z3.Real(f't{i}'); eng.assume(t >= -100, t <= 100); tv[i] = t
        return dv, tv

    def fn(eng):
        bad = None
        if variant.startswith('options'):
            caps = int(variant.split(':')[1]) if ':' in variant else 8
            dv, tv = mkvars(eng, 1, True)
            tc = z3.Real('tcap'); eng.assume(tc >= -200, tc <= 300)
            ref = wsim.SymWave(eng, 'cpu', c, caps, stim, {}, dvars=dv, tvars=tv).run(capture_time=T(0, tc))
            r0 = _results(ref)
            ref.w.s_ppo_to_ppi(time=0.5)
            p0 = {(k, int(i)): ref.w.s[k, int(i), 0] for i in range(ref.w.s_len) for k in (0, 1, 2)}
            for cls in ('cpu', 'gpu'):
                for reuse, strip in OPTS:
                    if (cls, reuse, strip) == ('cpu', False, False): continue
                    sw = wsim.SymWave(eng, cls, c, caps, stim, {'c_reuse': reuse, 'strip_forks': strip}, dvars=dv, tvars=tv).run(capture_time=T(0, tc))
                    k = _same(eng, r0, _results(sw))
                    if k is None:
                        sw.w.s_ppo_to_ppi(time=0.5)
                        k2 = _same(eng, p0, {(kk, int(i)): sw.w.s[kk, int(i), 0] for i in range(sw.w.s_len) for kk in (0, 1, 2)})
                        if k2 is not None: bad = bad or (f'state transfer: s[{k2[0]}] of {c.s_nodes[k2[1]].name} differs between WaveSim and {wsim.CLS[cls].__name__}', {'cls': cls, 'reuse': reuse, 'strip': strip})
                    rep.counts['obligations'] += 1
                    if k is not None: bad = bad or (f's[{k[0]}] of {c.s_nodes[k[1]].name} differs between WaveSim() and {wsim.CLS[cls].__name__}(c_reuse={reuse}, strip_forks={strip})', {'cls': cls, 'reuse': reuse, 'strip': strip})
                    else: rep.counts['discharged'] += 1
                    if not reuse and not strip and bad is None:       # full signal memory identical when nothing is reused
                        for l in c.lines:
                            a, b = ref.line_wave(l.index), sw.line_wave(l.index)
                            da, db = wsim.decode(a), wsim.decode(b)
                            if da[1] != db[1] or da[3] != db[3] or len(da[2]) != len(db[2]) or not all(eng.valid(x.e == y.e) for x, y in zip(da[2], db[2])):
                                bad = (f'waveform of line {l.index} differs between WaveSim and {wsim.CLS[cls].__name__}', {'cls': cls, 'reuse': reuse, 'strip': strip})
        elif variant.startswith('sims'):
            dv, tv = mkvars(eng, 1, False)
            ref = wsim.SymWave(eng, 'cpu', c, 8, stim, {}, dvars=dv, tvars=tv).run()
            r0 = _results(ref)
            for cls in (variant.split(':')[1],):
                for nsims, lane in ((2, 1), (3, 0), (3, 2)):
                    sw = SymWaveN(eng, cls, c, 8, stim, {}, nsims, lane, dv, tv, tag=f'{cls}{nsims}{lane}').run()
                    k = _same(eng, r0, _results(sw, lane))
                    rep.counts['obligations'] += 1
                    if k is not None: bad = bad or (f's[{k[0]}] differs when the stimulus sits in lane {lane} of {nsims} ({cls})', {'cls': cls, 'nsims': nsims, 'lane': lane})
                    else: rep.counts['discharged'] += 1
                # c_prop(sims=k): lanes < k as a full run, lanes >= k untouched
                sw = SymWaveN(eng, cls, c, 8, stim, {}, 3, 0, dv, tv, tag=f'{cls}k')
                w = sw.w
                w.s_to_c()
                before = [[w.c[r, ln] for r in range(w.c.shape[0])] for ln in range(3)]
                w.c_prop(sims=1); w.c_to_s()
                k = _same(eng, r0, _results(sw, 0))
                rep.counts['obligations'] += 2
                if k is not None: bad = bad or (f'c_prop(sims=1): lane 0 result s[{k[0]}] differs from a full run ({cls})', {'cls': cls, 'kprop': 1})
                else: rep.counts['discharged'] += 1
                if any(w.c[r, ln] is not before[ln][r] for ln in (1, 2) for r in range(w.c.shape[0])): bad = bad or (f'c_prop(sims=1) touched a lane >= 1 ({cls})', {'cls': cls, 'kprop': 1})
                else: rep.counts['discharged'] += 1
        else:   # datasets
            ND = 2
            dv, tv = mkvars(eng, ND, False)
            for cls in (variant.split(':')[1],):
                for sel in (int(variant.split(':')[2]),):
                    dsel = {(0, l, p, q): dv[(sel, l, p, q)] for l in range(len(c.lines)) for p in range(2) for q in range(2)}
                    ref = wsim.SymWave(eng, cls, c, 8, stim, {}, dvars=dsel, tvars=tv).run()
                    r0 = _results(ref)
                    for mode in (0, 1, 2, 3):
                        if mode == 0:
                            sw = wsim.SymWave(eng, cls, c, 8, stim, {}, dvars=dv, tvars=tv, ndata=ND)
                            sw.w.simctl_int[1] = 0
                        else:           # two lanes with different datasets; the lane of interest is lane 1 (mode 1) or lane 0 (mode 2 of this loop)
                            lane = 1 if mode in (1, 3) else 0
                            sw = SymWaveN(eng, cls, c, 8, stim, {}, 2, lane, dv, tv, ndata=ND, tag='ds')
                            sw.w.simctl_int[1] = 1
                            sw.w.simctl_int[0] = [sel, 1 - sel] if lane == 0 else [1 - sel, sel]
                            if mode == 3:       # mixed methods in one batch: lane 0 selects by seed (method 0), lane 1 per lane (method 1)
                                sw.w.simctl_int[1] = [0, 1]
                        sw.run(seed=sel if mode == 0 else (1 - sel if mode == 3 else 1))
                        k = _same(eng, r0, _results(sw, 0 if mode == 0 else lane))
                        rep.counts['obligations'] += 1
                        if k is not None: bad = bad or (f's[{k[0]}] with dataset {sel} selected by mode {mode} differs from simulating with that dataset alone ({cls}; mode 1/2 of this check = per-lane selection with the stimulus in lane 1/0)', {'cls': cls, 'sel': sel, 'selmode': mode})
                        else: rep.counts['discharged'] += 1
        if bad:
            mdl = wsim.grid_model(eng, [v for v in list(dv.values()) + list(tv.values()) if not z3.is_rational_value(v)] + [z3.Real('tcap')])
            found.append(({'mode': 'wave', 'nl': nlj, 'stim': st, 'variant': variant, 'info': bad[1], 'tcap': wsim.fr(mdl, z3.Real('tcap')), 'dvals': [[list(k), wsim.fr(mdl, v)] for k, v in dv.items()], 'tvals': [[k, wsim.fr(mdl, v)] for k, v in tv.items()]}, bad[0]))
        return 1
    try:
        eng.explore(fn)
    except EngineUnknown as e:
        rep.note(f'wave {nl.name} {st} {variant}: not covered ({e})')
    except Exception as e:
        import traceback
        data = {'mode': 'wave', 'nl': nlj, 'stim': st, 'variant': variant, 'info': {'exception': True}, 'dvals': [], 'tvals': []}
        ok, what = replay(data)
        if ok: rep.violation(f'wave/{variant}/exception={type(e).__name__}', what, data)
        else: rep.error(f'wave {nl.name} {variant}: {type(e).__name__}: {e} {traceback.format_exc()[-500:]}')
    rep.counts['paths'] += eng.npaths; rep.counts['branches'] += eng.nbranches; rep.counts['wave_paths'] += eng.npaths; rep.solver_s += eng.tsolve
    for data, detail in found[:1]:
        ok, what = replay(data)
        if ok: rep.violation(f'wave/{variant}/{nl.name}', f'{nl.name} stimulus {st}: {detail}; replay: {what}', data)
        else: rep.error(f'wave {nl.name} {variant}: {detail} - does not replay')
    if eng.complete and not found: rep.sample({'circuit': nl.name, 'stimulus': st, 'variant': variant, 'paths': eng.npaths, 'verdict': 'identical on all paths'}, limit=4)
    return rep


def replay_wave(data):
    nl = netlist.NL.from_json(data['nl'])
    c = netlist.build(nl, 'verilog')
    ins = wsim._in_slots(c)
    stim = {i: data['stim'][k] for k, i in enumerate(ins)}
    dvals = {tuple(k): v for k, v in data['dvals']}; tvals = {int(k): v for k, v in data['tvals']}
    info = data['info']
    variant = data['variant']

    def res(w, lane=0): return {(k, int(i)): float(w.s[k, int(i), lane]) for i in w.poppo_s_locs for k in (3, 4, 5, 6, 7, 10)}
    try:
        if variant.startswith('options'):
            caps = int(variant.split(':')[1]) if ':' in variant else 8
            tc = np.float32(data.get('tcap', 0.0))
            st3 = lambda w: [float(w.s[k, i, 0]) for i in range(w.s_len) for k in (0, 1, 2)]
            ref = wsim.concrete_wave('cpu', c, caps, stim, {}, dvals, tvals, capture_time=tc)
            r0 = res(ref); ref.s_ppo_to_ppi(time=0.5)
            out = []
            for cls in ('cpu', 'gpu'):
                for reuse, strip in OPTS:
                    w = wsim.concrete_wave(cls, c, caps, stim, {'c_reuse': reuse, 'strip_forks': strip}, dvals, tvals, capture_time=tc)
                    if res(w) != r0: out.append((cls, reuse, strip)); continue
                    w.s_ppo_to_ppi(time=0.5)
                    if st3(w) != st3(ref): out.append((cls, reuse, strip, 'state transfer'))
            return bool(out), f'results differ from WaveSim() for (class, c_reuse, strip_forks) in {out}'
        if variant.startswith('sims'):
            ref = wsim.concrete_wave('cpu', c, 8, stim, {}, dvals, tvals)
            out = []
            for cls in ('cpu', 'gpu'):
                for nsims, lane in ((2, 1), (3, 0), (3, 2)):
                    d = np.zeros((1, len(c.lines), 2, 2), dtype=np.float32)
                    for (k, l, p, q), v in dvals.items(): d[k, l, p, q] = v
                    w = wsim.CLS[cls](c, d, sims=nsims, c_caps=8)
                    for ln in range(nsims):
                        for i, v in stim.items():
                            w.s[0, i, ln], w.s[2, i, ln] = wsim.VAL[v] if ln == lane else ((ln + i) % 2, (ln + i) % 2)
                            w.s[1, i, ln] = tvals.get(i, 0.0) if ln == lane else float(ln)
                    w.s_to_c(); w.c_prop(); w.c_to_s()
                    if res(w, lane) != res(ref): out.append((cls, nsims, lane))
                d = np.zeros((1, len(c.lines), 2, 2), dtype=np.float32)
                for (k, l, p, q), v in dvals.items(): d[k, l, p, q] = v
                w = wsim.CLS[cls](c, d, sims=3, c_caps=8)
                for ln in range(3):
                    for i, v in stim.items():
                        w.s[0, i, ln], w.s[2, i, ln] = wsim.VAL[v] if ln == 0 else ((ln + i) % 2, (ln + i) % 2)
                        w.s[1, i, ln] = tvals.get(i, 0.0) if ln == 0 else float(ln)
                w.s_to_c(); before = np.array(w.c).copy()
                w.c_prop(sims=1); w.c_to_s()
                if res(w, 0) != res(ref): out.append((cls, 'c_prop(sims=1) lane 0 differs'))
                if not np.array_equal(np.array(w.c)[:, 1:], before[:, 1:]): out.append((cls, 'c_prop(sims=1) touched lanes >= 1'))
            return bool(out), f'lane/batch dependence for (class, sims, lane) in {out}'
        ND = 2
        out = []
        for cls in ('cpu', 'gpu'):
            for sel in range(ND):
                dsel = {(0, l, p, q): dvals.get((sel, l, p, q), 0.0) for l in range(len(c.lines)) for p in range(2) for q in range(2)}
                ref = wsim.concrete_wave(cls, c, 8, stim, {}, dsel, tvals)
                for mode in (0, 1, 2, 3):
                    d = np.zeros((ND, len(c.lines), 2, 2), dtype=np.float32)
                    for (k, l, p, q), v in dvals.items(): d[k, l, p, q] = v
                    lane = 1 if mode in (1, 3) else 0
                    w = wsim.CLS[cls](c, d, sims=1 if mode == 0 else 2, c_caps=8)
                    for i, v in stim.items():
                        w.s[0, i, lane], w.s[2, i, lane] = wsim.VAL[v]; w.s[1, i, lane] = tvals.get(i, 0.0)
                        if mode: w.s[0, i, 1 - lane] = w.s[2, i, 1 - lane] = (1 - lane + i) % 2
                    w.simctl_int[1] = min(mode, 1)
                    if mode: w.simctl_int[0] = [sel, 1 - sel] if lane == 0 else [1 - sel, sel]
                    if mode == 3: w.simctl_int[1] = [0, 1]
                    w.s_to_c(); w.c_prop(seed=sel if mode == 0 else (1 - sel if mode == 3 else 1)); w.c_to_s()
                    if res(w, lane) != res(ref): out.append((cls, sel, mode))
        return bool(out), f'dataset selection differs for (class, dataset, mode) in {out}'
    except Exception as e:
        return True, f'{type(e).__name__}: {e}'


def launcher_check(rep):
    """the pure-Python grid launcher visits every (x, y) thread index of the grid exactly once (finite, exhaustive over the dims used)"""
    import kyupy
    bad = None
    for block in ((32, 16), (2, 3), (3, 2), (1, 1), (4, 4)):
        for grid in itertools.product((1, 2, 3), repeat=2):
            seen = []

            @kyupy.cuda.jit()
            def probe():
                x, y = kyupy.cuda.grid(2)
                seen.append((x, y))
            probe[grid, block]()
            want = sorted((x, y) for x in range(grid[0] * block[0]) for y in range(grid[1] * block[1]))
            rep.counts['obligations'] += 1
            if sorted(seen) != want and bad is None:
                miss = sorted(set(want) - set(seen))[:3]
                bad = f'launcher with grid {grid} block {block} visits {len(seen)} thread indices ({len(set(seen))} distinct) instead of {len(want)}; missing e.g. {miss}'
            else: rep.counts['discharged'] += 1
    if bad: rep.violation('wave/launcher-coverage', bad, {'mode': 'launcher'})
    # large batches on both code paths (concrete, supplementary): every lane of 70 must equal the CPU result
    nl = wsim.E2E_NLS[0]
    c = netlist.build(nl, 'verilog')
    rng = np.random.default_rng(5)
    d = (rng.integers(1, 40, (1, len(c.lines), 2, 2)) / 8.0).astype(np.float32)
    res = []
    for cls in (WaveSim, WaveSimCuda):
        w = cls(c, d, sims=70, c_caps=8)
        r2 = np.random.default_rng(9)
        w.s[0] = r2.integers(0, 2, w.s[0].shape); w.s[2] = r2.integers(0, 2, w.s[2].shape); w.s[1] = r2.integers(-16, 16, w.s[1].shape) / 4.0
        w.s_to_c(); w.c_prop(); w.c_to_s()
        res.append(np.array(w.s[3:8]))
    rep.counts['obligations'] += 1
    if not np.array_equal(res[0], res[1]):
        lanes_bad = sorted(set(np.argwhere(res[0] != res[1])[:, 2].tolist()))
        rep.violation('wave/launcher-coverage', f'WaveSim and WaveSimCuda differ for sims=70 in lanes {lanes_bad[:6]}...', {'mode': 'launcher'})
    else: rep.counts['discharged'] += 1


def replay_launcher(data):
    r = common.Report()
    launcher_check(r)
    return bool(r.violations), r.violations[0]['what'] if r.violations else 'ok'


def replay(data):
    if data['mode'] == 'launcher': return replay_launcher(data)
    if data['mode'] == 'logic': return replay_logic(data)
    if data['mode'] == 'wave': return replay_wave(data)
    if data['mode'] == 'glue': return wsim.replay(data)
    return False, 'lane interference is reported from the solver model only'


def dispatch(job):
    return logic_item(job[1]) if job[0] == 'logic' else wave_job(job[1])


def run(tier, seed):
    J = [('wave', j) for j in wave_jobs(tier)] + [('logic', j) for j in logic_corpus(tier, seed)]
    rep = common.pmap(dispatch, J, chunksize=1)
    # memory re-use with per-line capacities of mixed sizes: the memory-map obligations (no two simultaneously live signals overlap) that make
    # c_reuse invisible at the ports - the product runs above use uniform capacities
    rep.merge(common.pmap(wsim.glue_job, wsim.glue_jobs(tier, seed), chunksize=4))
    launcher_check(rep)
    cov = {
        'states': int(rep.counts['paths']), 'transitions': int(rep.counts['branches']) + int(rep.counts['ops']), 'traces_validated_against_impl': len(rep.violations),
        'obligations': int(rep.counts['obligations']), 'discharged': int(rep.counts['discharged']), 'wave_paths': int(rep.counts['wave_paths']),
        'explanation': 'LogicSim: one symbolic run per option setting and z3 equality of all captured terms; WaveSim: forking product runs (reference vs variant on shared symbolic delays/times), z3 validity of equality per path',
        'functions_encoded': common.fn_sha(ksim.SimOps.__init__, LogicSim.c_prop, wave_sim._wave_eval, wave_sim.level_eval_cpu, WaveSim.s_to_c, WaveSim.c_to_s, WaveSimCuda.c_prop),
        'bounds': {'LogicSim': 'm in {2,4,8}, sims {3,9}, 4 option settings, lane index symbolic', 'WaveSim': 'circuits <= 3 gates, 1 transition per input, datasets 2, sims <= 3'},
        'exhaustive': False,
        'summary': f'{len(J)} jobs, {rep.counts["paths"]} symbolic runs/paths, {rep.counts["obligations"]} obligations, {rep.counts["discharged"]} discharged',
    }
    return LEVEL, rep, cov, ASSUME
