"""C20 - DEF data is extracted as written, with wildcards and via arrays expanded.
(a) E2: the real DefWire.vias / wire_points and DefNet.wires / vias on IR objects whose coordinates and step sizes are symbolic integers:
    z3 decides, for every wildcard pattern, that resolved coordinates equal the previous point's and arrays expand to all n x m positions;
(b) grammar + transformer: rendered DEF texts (all sections, counts 0..3, unique numeric tags) compared with the generator's ground truth
    (bounded enumeration - the text dimension cannot be symbolic, DESIGN.md par. 7)."""
import itertools
import random

import z3

from kyupy import def_file
from kyupy.def_file import DefWire, DefNet

from vlib import common
from vlib.engine import Engine, SI, EngineUnknown

LEVEL = 'model_checking'
ASSUME = [
    'post-processing: coordinates, via-array step sizes symbolic integers in [-10^6, 10^6]; number of points <= 4, wildcard positions all subsets after the first point, via kinds (plain / orientation / DO n BY m STEP with n,m <= 3) enumerated',
    'text -> IR: finite family of rendered DEF files (renderer in this file is the ground truth); text outside the grammar subset is outside the claim',
    'a regular net has no width: its wire entries carry width None (the statement only demands that the listings are available)',
]


# ------------------------------------------------------------------------------------------------ (a) symbolic post-processing

def shapes(tier):
    """point sequences: list of items 'p' (point), 'v' plain via, 'o' via with orientation, 'a' via array"""
    S = []
    for n in (2, 3, 4) if tier == 'thorough' else (2, 3):
        for seq in itertools.product('pvoa', repeat=n - 1):
            if 'p' not in seq and 'v' not in seq and 'o' not in seq and 'a' not in seq: continue
            S.append(('p',) + seq)
    return S


def ir_job(job):
    seq, wild, special, dims = job
    rep = common.Report()
    eng = Engine()
    found = []

    def build(eng, vals=None):
        """returns (DefNet, expected wires, expected vias); vals: concrete replay values or None (symbolic)"""
        cnt = [0]

        def num(name, lo=-10 ** 6, hi=10 ** 6):
            cnt[0] += 1
            if vals is not None: return vals.get(name, 7 * cnt[0])
            v = z3.Int(name); eng.assume(v >= lo, v <= hi)
            return SI(v)
        w = DefWire()
        w.layer = 'M1'
        w.width = '120' if special else None
        pts, cur, exp_pts, exp_vias = [], None, [], {}
        wi = iter(wild)
        for k, it in enumerate(seq):
            if it == 'p':
                x, y = num(f'x{k}'), num(f'y{k}')
                wx, wy = (False, False) if k == 0 else next(wi)
                p = (None if wx else x, None if wy else y)
                cur = (cur[0] if wx else x, cur[1] if wy else y) if cur is not None else (x, y)
                pts.append(p); exp_pts.append(cur)
            elif it == 'v':
                pts.append(('VIA%d' % k, None if special else 'N')); exp_vias.setdefault('VIA%d' % k, []).append((cur[0], cur[1], 'N'))
            elif it == 'o':
                if special: pts.append(('VIA%d' % k, None)); exp_vias.setdefault('VIA%d' % k, []).append((cur[0], cur[1], 'N'))
                else: pts.append(('VIA%d' % k, 'FS')); exp_vias.setdefault('VIA%d' % k, []).append((cur[0], cur[1], 'FS'))
            else:
                n, m = dims
                dx, dy = num(f'dx{k}'), num(f'dy{k}')
                pts.append(('ARR%d' % k, (n, m, dx, dy)))
                for i in range(n):
                    for j in range(m): exp_vias.setdefault('ARR%d' % k, []).append((cur[0] + i * dx, cur[1] + j * dy, 'N'))
        w.points = pts
        net = DefNet('n')
        net.routed = [w]
        return net, exp_pts, exp_vias

    def same(a, b):
        if isinstance(a, SI) or isinstance(b, SI): return eng.valid(SI.ex(a) == SI.ex(b))
        return a == b

    def fn(eng):
        net, exp_pts, exp_vias = build(eng)
        bad = None
        try:
            vv = net.vias
            if set(vv) != set(exp_vias): bad = f'via listing has types {sorted(vv)}, file states {sorted(exp_vias)}'
            else:
                for t in exp_vias:
                    got, exp = list(vv[t]), exp_vias[t]
                    if len(got) != len(exp): bad = f'via {t}: {len(got)} positions listed, {len(exp)} expected (arrays expand to all n x m positions)'; break
                    used = [False] * len(got)
                    for e in exp:
                        hit = next((i for i, g in enumerate(got) if not used[i] and same(g[0], e[0]) and same(g[1], e[1]) and g[2] == e[2]), None)
                        if hit is None: bad = f'via {t}: position {e} missing (wildcard coordinates inherit the previous point; arrays step by dx/dy)'; break
                        used[hit] = True
                    if bad: break
            if not bad:
                ww = net.wires
                has_wire = len(exp_pts) >= 2
                if not has_wire:
                    if len(ww.get('M1', [])) != 0: bad = 'a single point with vias only is listed as a wire'
                else:
                    ent = ww.get('M1', [])
                    if len(ent) != 1: bad = f'wire listing for layer M1 has {len(ent)} entries, expected 1'
                    else:
                        width, points = ent[0]
                        if special and width != 120: bad = f'special-net wire width {width!r}, file states 120'
                        elif len(points) != len(exp_pts): bad = f'wire has {len(points)} points, expected {len(exp_pts)}'
                        else:
                            for g, e in zip(points, exp_pts):
                                if g[0] is None or g[1] is None or not same(g[0], e[0]) or not same(g[1], e[1]):
                                    bad = f'wire point {g} does not carry the resolved coordinates ("*" inherits the previous point\'s value)'; break
        except (TypeError, AttributeError, KeyError, IndexError, ValueError) as e:
            bad = f'{type(e).__name__}: {e}'
        rep.counts['obligations'] += 1
        if bad:
            extra = [eng.failed_claim] if eng.failed_claim is not None else []
            mdl = eng.solver.model() if eng.solver.check(*extra) == z3.sat else eng.model()
            vals = {}
            for dcl in mdl.decls():
                try: vals[dcl.name()] = mdl[dcl].as_long()
                except Exception: pass
            found.append((bad, vals))
        else: rep.counts['discharged'] += 1
        return 1
    try: eng.explore(fn)
    except EngineUnknown as e: rep.error(f'{job}: {e}')
    rep.counts['paths'] += eng.npaths; rep.counts['branches'] += eng.nbranches; rep.solver_s += eng.tsolve
    data = {'mode': 'ir', 'seq': list(seq), 'wild': [list(w) for w in wild], 'special': special, 'dims': list(dims)}
    if found:
        data['vals'] = found[0][1]
        found = [found[0][0]]
        ok, what = replay(data)
        cls = 'regular-net-wires' if not special and ('TypeError' in found[0] or 'TypeError' in what) else ('wildcard-in-wire-points' if 'resolved' in found[0] or 'resolved' in what else 'geometry')
        if ok: rep.violation(f'ir/{cls}', f'{found[0]}; replay: {what}', data)
        else: rep.error(f'{job}: {found[0]} - does not replay')
    elif eng.complete: rep.sample({'points': ''.join(seq), 'wildcards': [list(w) for w in wild], 'special net': special, 'array dims': list(dims), 'verdict': 'valid for all coordinates'}, limit=3)
    return rep


def replay_ir(data):
    seq, wild, special, dims = data['seq'], [tuple(w) for w in data['wild']], data['special'], tuple(data['dims'])
    w = DefWire(); w.layer = 'M1'; w.width = '120' if special else None
    pts, cur, exp_pts, exp_vias = [], None, [], {}
    wi = iter(wild); c = 0
    V = data.get('vals') or {}
    for k, it in enumerate(seq):
        if it == 'p':
            x, y = V.get(f'x{k}', 100 + 13 * k), V.get(f'y{k}', 1000 + 17 * k)
            wx, wy = (False, False) if k == 0 else next(wi)
            pts.append((None if wx else x, None if wy else y))
            cur = (cur[0] if wx else x, cur[1] if wy else y) if cur else (x, y)
            exp_pts.append(cur)
        elif it in 'vo':
            ori = 'FS' if (it == 'o' and not special) else 'N'
            pts.append((f'VIA{k}', None if special else ori)); exp_vias.setdefault(f'VIA{k}', []).append((cur[0], cur[1], ori))
        else:
            n, m = dims; dx, dy = V.get(f'dx{k}', 5 + k), V.get(f'dy{k}', -7 - k)
            pts.append((f'ARR{k}', (n, m, dx, dy)))
            for i in range(n):
                for j in range(m): exp_vias.setdefault(f'ARR{k}', []).append((cur[0] + i * dx, cur[1] + j * dy, 'N'))
    w.points = pts
    net = DefNet('n'); net.routed = [w]
    try:
        vv = {k: sorted(v) for k, v in net.vias.items()}
        if vv != {k: sorted(v) for k, v in exp_vias.items()}: return True, f'vias {vv}, file states {exp_vias}'
        ww = dict(net.wires)
    except Exception as e:
        return True, f'{type(e).__name__}: {e}'
    if len(exp_pts) >= 2:
        ent = ww.get('M1', [])
        if len(ent) != 1 or list(ent[0][1]) != exp_pts or (special and ent[0][0] != 120): return True, f'wires {ww}, file states points {exp_pts}'
    elif ww.get('M1'): return True, f'wires {ww} for a single point'
    return False, 'ok'


# ------------------------------------------------------------------------------------------------ (b) text -> IR

class Tag:
    def __init__(self, seed): self.n = 1000 + 37 * seed
    def __call__(self): self.n += 7; return self.n


def render(model):
    L = ['VERSION 5.8 ;', 'DIVIDERCHAR "/" ;', 'BUSBITCHARS "[]" ;', f'DESIGN {model["design"]} ;']
    for u in model['units']: L.append(f'UNITS {u[0]} {u[1]} {u[2]} ;')
    if model['diearea']: L.append('DIEAREA ' + ' '.join(f'( {x} {y} )' for x, y in model['diearea']) + ' ;')
    for r in model['rows']: L.append(f'ROW {r[0]} {r[1]} {r[2][0]} {r[2][1]} {r[3]} DO {r[4][0]} BY {r[4][1]} STEP {r[4][2]} {r[4][3]} ;')
    for t in model['tracks']: L.append(f'TRACKS {t[0]} {t[1]} DO {t[2]} STEP {t[3]} LAYER {t[4]} ;')
    if model['vias'] is not None:
        L.append(f'VIAS {len(model["vias"])} ;')
        for name, v in model['vias'].items():
            s = f'- {name}'
            for k, val in v.items():
                s += f'\n  + {k.upper()} ' + (' '.join(map(str, val)) if isinstance(val, list) else str(val))
            L.append(s + ' ;')
        L.append('END VIAS')
    if model['components'] is not None:
        L.append(f'COMPONENTS {len(model["components"])} ;')
        for name, (kind, pt, ori) in model['components'].items(): L.append(f'- {name} {kind} + PLACED ( {pt[0]} {pt[1]} ) {ori} ;')
        L.append('END COMPONENTS')
    if model['pins'] is not None:
        L.append(f'PINS {len(model["pins"])} ;')
        for name, p in model['pins'].items():
            s = f'- {name} + NET {p["net"]}'
            if 'direction' in p: s += f' + DIRECTION {p["direction"]}'
            if 'use' in p: s += f' + USE {p["use"]}'
            if 'layer' in p: s += f'\n + LAYER {p["layer"][0]} ( {p["layer"][1][0]} {p["layer"][1][1]} ) ( {p["layer"][2][0]} {p["layer"][2][1]} )'
            for pl in p.get('points', []): s += f'\n + PLACED ( {pl[0]} {pl[1]} ) {pl[2]}'
            L.append(s + ' ;')
        L.append('END PINS')
    for sec, key in (('SPECIALNETS', 'specialnets'), ('NETS', 'nets')):
        if model[key] is None: continue
        L.append(f'{sec} {len(model[key])} ;')
        for name, n in model[key].items():
            s = f'- {name}'
            for comp, pin in n['pins']: s += f' ( {comp} {pin} )'
            if 'use' in n: s += f'\n + USE {n["use"]}'
            for kind, wires in n['wiring']:
                s += f'\n + {kind}'
                for wi, w in enumerate(wires):
                    s += ('\n   NEW ' if wi else ' ') + w['layer'] + (f' {w["width"]}' if sec == 'SPECIALNETS' else '')
                    if w.get('shape'): s += f' + SHAPE {w["shape"]}'
                    for p in w['points']:
                        if p[0] == 'via':
                            s += f' {p[1]}'
                            if p[2] is not None: s += (f' DO {p[2][0]} BY {p[2][1]} STEP {p[2][2]} {p[2][3]}' if isinstance(p[2], tuple) else f' {p[2]}')
                        else: s += f' ( {"*" if p[1] is None else p[1]} {"*" if p[2] is None else p[2]} )'
            L.append(s + ' ;')
        L.append(f'END {sec}')
    L.append('END DESIGN')
    return '\n'.join(L) + '\n'


def gen_model(k, seed):
    rng = random.Random(f'{seed}/{k}')
    T = Tag(k)
    cnt = lambda: rng.choice([0, 1, 2, 3])
    m = {'design': f'top{k}', 'units': [('DISTANCE', 'MICRONS', T())][:rng.choice([0, 1])], 'diearea': [(T(), T()) for _ in range(rng.choice([0, 2, 4]))],
         'rows': [(f'ROW_{i}', 'unit', (T(), T()), rng.choice(['N', 'FS']), rng.choice([(T() % 50 + 2, 1, T(), 0), (1, T() % 50 + 2, 0, T())])) for i in range(cnt())],
         'tracks': [(rng.choice('XY'), T(), T(), T(), f'M{i + 1}') for i in range(cnt())]}
    m['vias'] = None if rng.random() < 0.2 else {f'via{i}': dict([('viarule', f'rule{i}'), ('cutsize', [T(), T()]), ('layers', ['M1', 'VIA12', 'M2']), ('cutspacing', [T(), T()]),
                                                                  ('enclosure', [T(), T(), T(), T()])] + ([('rowcol', [T() % 5 + 1, T() % 5 + 1])] if rng.random() < 0.5 else [])) for i in range(cnt())}
    m['components'] = None if rng.random() < 0.2 else {f'u{i}': (f'CELL{i}', (T(), T()), rng.choice(['N', 'S', 'FN', 'FS', 'W'])) for i in range(cnt())}
    m['pins'] = None if rng.random() < 0.2 else {}
    if m['pins'] is not None:
        for i in range(cnt()):
            p = {'net': f'net{i}'}
            if rng.random() < 0.8: p['direction'] = rng.choice(['INPUT', 'OUTPUT'])
            if rng.random() < 0.5: p['use'] = 'SIGNAL'
            if rng.random() < 0.7: p['layer'] = [f'M{i + 2}', (T(), T()), (T(), T())]
            p['points'] = [(T(), T(), rng.choice(['N', 'S'])) for _ in range(rng.choice([0, 1]))]
            m['pins'][f'pin{i}'] = p

    def wires(special):
        ws = []
        for _ in range(rng.choice([1, 1, 2, 3])):
            pts = [('pt', T(), T())]
            for _ in range(rng.choice([1, 2, 3])):
                r = rng.random()
                if r < 0.55:
                    wx, wy = rng.choice([(False, False), (True, False), (False, True)])
                    pts.append(('pt', None if wx else T(), None if wy else T()))
                elif r < 0.8: pts.append(('via', f'VIAX{rng.randint(1, 3)}', None if special or rng.random() < 0.5 else rng.choice(['N', 'FS', 'W'])))
                elif special: pts.append(('via', f'VARR{rng.randint(1, 2)}', (rng.randint(1, 3), rng.randint(1, 3), T(), -T())))
                else: pts.append(('pt', T(), T()))
            ws.append({'layer': f'M{rng.randint(1, 4)}', 'width': T(), 'shape': 'STRIPE' if special and rng.random() < 0.4 else None, 'points': pts})
        return ws
    for key, special in (('specialnets', True), ('nets', False)):
        if rng.random() < 0.15: m[key] = None; continue
        m[key] = {}
        for i in range(cnt()):
            n = {'pins': [(f'u{j}', rng.choice('ABYZ')) for j in range(rng.choice([0, 1, 2]))], 'wiring': []}
            if rng.random() < 0.4: n['use'] = rng.choice(['POWER', 'SIGNAL', 'CLOCK'])
            kinds = rng.choice([[], ['ROUTED'], ['ROUTED'], ['FIXED'], ['COVER', 'ROUTED']])
            for kd in kinds: n['wiring'].append((kd, wires(special)))
            m[key][f'{"VDD" if special else "n"}{i}'] = n
    return m


def exp_geometry(n, special):
    """per-layer wires and vias as the file states them (ROUTED wiring)"""
    ww, vv = {}, {}
    for kind, wires in n['wiring']:
        if kind != 'ROUTED': continue
        for w in wires:
            cur, pts = None, []
            for p in w['points']:
                if p[0] == 'pt':
                    cur = (cur[0] if p[1] is None else p[1], cur[1] if p[2] is None else p[2]) if cur else (p[1], p[2])
                    pts.append(cur)
                else:
                    if isinstance(p[2], tuple):
                        for i in range(p[2][0]):
                            for j in range(p[2][1]): vv.setdefault(p[1], []).append((cur[0] + i * p[2][2], cur[1] + j * p[2][3], 'N'))
                    else: vv.setdefault(p[1], []).append((cur[0], cur[1], p[2] or 'N'))
            if len(pts) >= 2: ww.setdefault(w['layer'], []).append((w['width'] if special else None, pts))
    return ww, vv


def compare(model, d):
    """list of differences between the parsed DefFile and the ground truth"""
    P = []
    if getattr(d, 'design', None) != model['design']: P.append(f'design {getattr(d, "design", None)!r}')
    if getattr(d, 'version', None) != '5.8': P.append(f'version {getattr(d, "version", None)!r}')
    if getattr(d, 'dividerchar', None) != '/': P.append(f'dividerchar {getattr(d, "dividerchar", None)!r}')
    if [tuple(u) for u in d.units] != [tuple(u) for u in model['units']]: P.append(f'units {d.units}')
    if model['diearea'] and [tuple(p) for p in getattr(d, 'diearea', [])] != model['diearea']: P.append(f'diearea {getattr(d, "diearea", None)}')
    want_rows = [(r[0], r[1], r[2], r[3], max(r[4][0], r[4][1]), max(r[4][2], r[4][3])) for r in model['rows']]
    if [tuple(r) for r in d.rows] != want_rows: P.append(f'rows {d.rows} != {want_rows}')
    if [tuple(t) for t in d.tracks] != [tuple(t) for t in model['tracks']]: P.append(f'tracks {d.tracks}')
    mv = model['vias'] or {}
    if sorted(d.vias) != sorted(mv): P.append(f'via names {sorted(d.vias)}')
    else:
        for name, v in mv.items():
            for k, val in v.items():
                if getattr(d.vias[name], k, None) != val: P.append(f'via {name}.{k} = {getattr(d.vias[name], k, None)!r}, file states {val!r}')
    mc = model['components'] or {}
    if {k: (v[0], tuple(v[1]), v[2]) for k, v in d.components.items()} != mc: P.append(f'components {d.components}')
    mp = model['pins'] or {}
    if sorted(d.pins) != sorted(mp): P.append(f'pin names {sorted(d.pins)}')
    else:
        for name, p in mp.items():
            dp = d.pins[name]
            for k in ('net', 'direction', 'use'):
                if k in p and getattr(dp, k, None) != p[k]: P.append(f'pin {name}.{k} = {getattr(dp, k, None)!r}')
            if 'layer' in p and [dp.layer[0], tuple(dp.layer[1]), tuple(dp.layer[2])] != [p['layer'][0], p['layer'][1], p['layer'][2]]: P.append(f'pin {name}.layer {getattr(dp, "layer", None)}')
            if [tuple(x) for x in dp.points] != [tuple(x) for x in p.get('points', [])]: P.append(f'pin {name} placement {dp.points}')
    for key, special in (('specialnets', True), ('nets', False)):
        mn = model[key] or {}
        dn = getattr(d, key)
        if sorted(dn) != sorted(mn): P.append(f'{key} names {sorted(dn)}'); continue
        for name, n in mn.items():
            net = dn[name]
            if [tuple(x) for x in net.pins] != n['pins']: P.append(f'{key} {name} connectivity {net.pins} != {n["pins"]}')
            if 'use' in n and getattr(net, 'use', None) != n['use']: P.append(f'{key} {name} use')
            ww, vv = exp_geometry(n, special)
            try:
                gw = {k: [(w, [tuple(p[:2]) for p in pts]) for w, pts in v] for k, v in net.wires.items() if v}
                gv = {k: sorted(v) for k, v in net.vias.items() if v}
            except Exception as e:
                P.append(f'{key} {name}: wire/via listing raised {type(e).__name__}: {e}'); continue
            if gw != ww: P.append(f'{key} {name} wires {gw}, file states {ww}')
            if gv != {k: sorted(v) for k, v in vv.items()}: P.append(f'{key} {name} vias {gv}, file states {vv}')
    return P


def reject_first(k, seed):
    """every fourth text is parsed right after a text the parser rejects half-way (another design cut off in the middle of a section):
    a failed parse must leave nothing behind"""
    if k % 4 != 1: return False
    other = render(gen_model(k + 1000, seed))
    cut = other[:int(len(other) * 0.6)]
    try: def_file.parse(cut)
    except Exception: return True
    return False


def text_job(job):
    k, seed = job
    rep = common.Report()
    model = gen_model(k, seed)
    txt = render(model)
    rep.counts['texts'] += 1
    try:
        if reject_first(k, seed): rep.counts['texts_after_rejected_text'] += 1
        d = def_file.parse(txt)
        P = compare(model, d)
    except Exception as e:
        P = [f'parse raised {type(e).__name__}: {str(e)[:200]}']
    rep.counts['obligations'] += 1
    if P:
        cls = 'regular-net-wires' if any('TypeError' in p for p in P) else ('unrouted-net-listing' if any('AttributeError' in p for p in P) else ('wildcard-in-wire-points' if any('None' in p and 'wires' in p for p in P) else 'extraction'))
        rep.violation(f'text/{cls}', f'DEF text #{k}: {P[0][:400]}', {'mode': 'text', 'k': k, 'seed': seed})
    else:
        rep.counts['discharged'] += 1
        rep.sample({'def text': txt[:300] + ' ...', 'verdict': 'extracted data equals the generator ground truth'}, limit=1)
    return rep


def replay(data):
    if data['mode'] == 'ir': return replay_ir(data)
    model = gen_model(data['k'], data['seed'])
    try:
        reject_first(data['k'], data['seed'])
        P = compare(model, def_file.parse(render(model)))
    except Exception as e:
        return True, f'{type(e).__name__}: {e}'
    return bool(P), str(P[:2])


def dispatch(job):
    return ir_job(job[1]) if job[0] == 'ir' else text_job(job[1])


def run(tier, seed):
    J = []
    for seq in shapes(tier):
        npts = seq.count('p') - 1
        for wild in itertools.product([(False, False), (True, False), (False, True), (True, True)], repeat=npts):
            for special in (True, False):
                dimsl = [(2, 3), (1, 1), (3, 2)] if 'a' in seq else [(1, 1)]
                for dims in dimsl:
                    if 'a' in seq and not special: continue        # DO ... STEP arrays only exist in special nets (grammar)
                    J.append(('ir', (seq, wild, special, dims)))
    ntext = 40 if tier == 'quick' else 2000
    J += [('text', (k, seed)) for k in range(ntext)]
    rep = common.pmap(dispatch, J, chunksize=4)
    cov = {
        'states': int(rep.counts['paths']), 'transitions': int(rep.counts['branches']) + int(rep.counts['paths']), 'traces_validated_against_impl': int(rep.counts['texts']),
        'obligations': int(rep.counts['obligations']), 'discharged': int(rep.counts['discharged']), 'rendered_texts': int(rep.counts['texts']),
        'explanation': 'post-processing: symbolic runs of the real DefWire/DefNet properties with symbolic coordinates (z3 validity of every resolved coordinate / array position); text->IR: rendered files vs ground truth (enumeration)',
        'functions_encoded': common.fn_sha(DefWire.vias.fget, DefWire.wire_points.fget, DefNet.wires.fget, DefNet.vias.fget, def_file.DefTransformer),
        'bounds': {'points per wire': '<= 3 (quick) / 4 (thorough)', 'array dims': '<= 3 x 3', 'texts': ntext},
        'exhaustive': False,
        'summary': f'{len(J)} jobs, {rep.counts["paths"]} symbolic paths, {rep.counts["texts"]} texts, {rep.counts["obligations"]} obligations, {rep.counts["discharged"]} discharged',
    }
    return LEVEL, rep, cov, ASSUME
