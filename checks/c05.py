"""C05 - 8-valued logic simulation conservatively predicts timing simulation.
Kernel lemma L-HAZ: for every abstract input tuple over {0,1,R,F,P,N} the waveform inputs conform to, the result of the real
LogicSim(m=8) for that tuple bounds what the real _wave_eval may produce (initial/final agree; plain 0/1 => no transition at all).
End-to-end through both public simulators on small circuits, all option settings."""
import itertools

from kyupy import wave_sim, logic
from kyupy.logic_sim import LogicSim

from vlib import common, wave, wsim
from checks import c03

LEVEL = 'model_checking'
ASSUME = [
    'kernel lemma L-HAZ on one call of the real _wave_eval: operand waveforms are arbitrary waveforms conforming to an abstract value (0/1: no transition; R/F: matching initial/final, odd number <= K of transitions at '
    'arbitrary symbolic times; P/N: even number); 8-valued result computed by the real LogicSim(m=8) on the one-gate circuit; all delays symbolic',
    'lifting to circuits: conformance is preserved gate by gate (the lemma\'s conclusion is the next gate\'s premise) - paper induction, confirmed end-to-end on small circuits with stimuli over {0,1,R,F}',
    'boundary lemma on the real s_to_c (CPU and GPU kernel): symbolic old slot content, every value 0/1/R/F/X',
    'float model and bounds as C03',
]


def run(tier, seed):
    J = c03.kernel_jobs(tier, frozenset({'WF', 'HAZ'}))
    if tier == 'quick':          # one input carries a pulse (two transitions), the others are static: P/N operands of the 3- and 4-input primitives
        for name in wave.LUTS:
            ar = wave.lut_arity(name)
            if ar < 3: continue
            for pin in range(ar):
                Ks = tuple(2 if k == pin else 0 for k in range(ar))
                for inits in itertools.product((0, 1), repeat=ar): J.append((name, Ks, inits, 8, None, False, frozenset({'WF', 'HAZ'})))
    J.sort(key=lambda j: -(sum(j[1]) + 1) ** len(j[1]))
    rep = common.pmap(wave.kernel_job, J, chunksize=1)
    rep.merge(common.pmap(wsim.boundary_job, wsim.boundary_jobs(), chunksize=4))     # the 0/1/R/F stimulus is encoded as the waveform the lemma's premise assumes, whatever the slot held before
    E = []
    for optt in ((), (('c_reuse', True),), (('c_reuse', True), ('strip_forks', True))):
        for j in wsim.e2e_jobs(tier, seed, {'HAZ'}, light=(optt != ())):
            E.append(j[:5] + (optt,))
    rep.merge(common.pmap(wsim.e2e_job, E, chunksize=1))
    rep.merge(common.pmap(wsim.glue_job, wsim.glue_jobs(tier, seed), chunksize=4))          # schedule / memory-map obligations the induction relies on
    # reachability twin: claiming "no transition" for a rising AND2 output must be refuted
    orig = wave.out8
    wave.out8 = lambda name, vals: 3 if tuple(vals) == ('R', '1') else orig(name, vals)
    try: tw = wave.kernel_job(('AND2', (1, 0), (0, 1), 8, None, False, frozenset({'WF', 'HAZ'})))
    finally: wave.out8 = orig
    if not tw.violations: rep.error('reachability twin failed')
    cov = {
        'states': int(rep.counts['paths']), 'transitions': int(rep.counts['branches']) + int(rep.counts['paths']),
        'traces_validated_against_impl': int(rep.counts['concolic_runs']),
        'obligations': int(rep.counts['obligations']), 'discharged': int(rep.counts['discharged']), 'kernel_jobs': len(J), 'boundary_paths': int(rep.counts['boundary_paths']), 'e2e_jobs': len(E), 'e2e_paths': int(rep.counts['e2e_paths']),
        'abstract_tuples_evaluated': len(wave._O8),
        'explanation': 'states = completed symbolic paths of the real kernel / whole simulators; per path the claim is evaluated for every abstract tuple the stimulus shape conforms to',
        'functions_encoded': common.fn_sha(wave_sim._wave_eval, LogicSim.c_prop, logic.bp8v_and, logic.bp8v_or, logic.bp8v_xor, logic.bp8v_not),
        'bounds': {'K per input': {'arity1': 4, 'arity2': 2 if tier == 'quick' else 3, 'arity3': 1 if tier == 'quick' else '2 (<= 4 overall)', 'arity4': 1, 'arity3+4 extra (quick)': 'one input K=2, the others static'}, 'caps': [4, 8, 16], 'e2e options': ['default', 'c_reuse', 'c_reuse+strip_forks'], 'simulators': ['WaveSim', 'WaveSimCuda']},
        'exhaustive': False,
        'summary': f'{len(J)} kernel jobs, {rep.counts["paths"]} paths, {rep.counts["obligations"]} obligations, {rep.counts["discharged"]} discharged',
    }
    return LEVEL, rep, cov, ASSUME


def replay(data):
    if data.get('mode') in ('boundary', 'e2e', 'glue'): return wsim.replay(data)
    prob = wave.concrete_lemma(data)
    return bool(prob), str(prob)
