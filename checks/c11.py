"""C11 - parsed Verilog and bench netlists simulate as the described netlist.
The text dimension is enumerated by a renderer (bounded grammar, DESIGN.md par. 7): ground-truth netlists x textual variants (declaration styles,
range directions, pin orders, statement order, escaped names, comments, attributes, constants, concatenations, both branchforks settings).
Behind the real parser + resolve_tlib_cells everything is symbolic: the parsed circuit runs through the real LogicSim on symbolic lanes (E1)
and z3 decides equality with the ground-truth function for all stimuli, ports compared by position."""
import itertools
import random
import re

import z3

from kyupy import bench, verilog, techlib
from kyupy.logic_sim import LogicSim

from vlib import common, lanes, netlist, ref2
from checks import c19

LEVEL = 'model_checking'
ASSUME = [
    'texts are produced by the renderer in this file from ground-truth netlists (the renderer and its evaluator are the trusted base); text outside its grammar is outside the claim; hierarchical Verilog outside',
    'cell functions in the ground truth come from the data-sheet table of C19 (family regex on the cell name); flip-flops are state elements (Q = state, QN = not state, captured value = D)',
    'only named pin connections (the statement); positional connections are rejected by the technology library interface (observation)',
    'ports are compared by position in io_nodes (header order, bus bits in declared range order); state elements by instance name',
]

# ------------------------------------------------------------------------------------------------ ground-truth Verilog models
# ports: (name, dir, range|None); wires: (name, range|None); inst: (cell, name, {pin: expr}); assigns: (lhs, rhs)
# expr: 'name' | 'name[i]' | "1'b0" | "1'b1" | ['concat', e1, e2, ...] | sized constant "2'b10"

VMODELS = {
    'v1': dict(lib='SAED90', ports=[('a', 'in', None), ('b', 'in', None), ('z', 'out', None), ('y', 'out', None)], wires=[('x', None)],
               inst=[('AND2X1', 'g1', {'IN1': 'a', 'IN2': 'b', 'Q': 'x'}), ('INVX1', 'g2', {'INP': 'x', 'ZN': 'z'}), ('XOR2X1', 'g3', {'IN1': 'x', 'IN2': 'a', 'Q': 'y'})], assigns=[]),
    'v2': dict(lib='SAED90', ports=[('a', 'in', (3, 0)), ('b', 'in', (0, 2)), ('z', 'out', (1, 0)), ('s', 'in', None)], wires=[('t', (1, 0))],
               inst=[('NAND2X1', 'u0', {'IN1': 'a[3]', 'IN2': 'b[0]', 'QN': 't[0]'}), ('NOR2X1', 'u1', {'IN1': 'a[0]', 'IN2': 'b[2]', 'QN': 't[1]'}),
                     ('MUX21X1', 'u2', {'IN1': 't[0]', 'IN2': 't[1]', 'S': 's', 'Q': 'z[1]'}), ('AO21X1', 'u3', {'IN1': 'a[1]', 'IN2': 'a[2]', 'IN3': 'b[1]', 'Q': 'z[0]'})], assigns=[]),
    'v3': dict(lib='SAED90', ports=[('a', 'in', (1, 0)), ('b', 'in', None), ('z', 'out', (2, 0)), ('y', 'out', None), ('w', 'out', None)], wires=[('k', None), ('m', None)],
               inst=[('OR2X1', 'o1', {'IN1': 'a[0]', 'IN2': "1'b0", 'Q': 'm'}), ('AND2X1', 'o2', {'IN1': 'k', 'IN2': 'b', 'Q': 'y'})],
               assigns=[('z[0]', 'a[1]'), ('k', "1'b1"), (['concat', 'z[2]', 'z[1]'], ['concat', 'm', 'b']), ('w', 'm')]),
    'v4': dict(lib='SAED90', ports=[('d', 'in', None), ('ck', 'in', None), ('q', 'out', None), ('qb', 'out', None), ('o', 'out', None)], wires=[('n', None), ('q2', None)],
               inst=[('DFFX1', 'ff1', {'D': 'd', 'CLK': 'ck', 'Q': 'q', 'QN': 'qb'}), ('XOR2X1', 'x1', {'IN1': 'q', 'IN2': 'd', 'Q': 'n'}), ('DFFX1', 'ff2', {'D': 'n', 'CLK': 'ck', 'Q': 'q2'}),
                     ('NAND2X1', 'n1', {'IN1': 'q2', 'IN2': 'qb', 'QN': 'o'})], assigns=[]),
    'v5': dict(lib='NANGATE', ports=[('a', 'in', None), ('b', 'in', None), ('c', 'in', None), ('s', 'out', None), ('co', 'out', None), ('z', 'out', None)], wires=[('n1', None), ('n2', None)],
               inst=[('FA_X1', 'fa', {'A': 'a', 'B': 'b', 'CI': 'c', 'S': 's', 'CO': 'co'}), ('AOI21_X1', 'g1', {'A': 'a', 'B1': 'b', 'B2': 'c', 'ZN': 'n1'}), ('OAI211_X1', 'g2', {'A': 'n1', 'B': 'a', 'C1': 'b', 'C2': 'c', 'ZN': 'n2'}),
                     ('MUX2_X1', 'g3', {'A': 'n1', 'B': 'n2', 'S': 'c', 'Z': 'z'})], assigns=[]),
    'v6': dict(lib='SAED90', ports=[('a', 'in', None), ('b', 'in', None), ('z', 'out', None)], wires=[('\\w/x ', None), ('\\n[3] ', None)],
               inst=[('AND2X1', '\\inst[3] ', {'IN1': 'a', 'IN2': 'b', 'Q': '\\w/x '}), ('INVX1', '\\u$1 ', {'INP': '\\w/x ', 'ZN': '\\n[3] '}), ('OR2X1', 'g', {'IN1': '\\n[3] ', 'IN2': 'a', 'Q': 'z'})], assigns=[]),
    'v7': dict(lib='SAED90', ports=[('a', 'in', (0, 0)), ('b', 'in', (2, 2)), ('z', 'out', (0, 0))], wires=[],
               inst=[('NAND2X1', 'g', {'IN1': 'a[0]', 'IN2': 'b[2]', 'QN': 'z[0]'})], assigns=[]),
    'v9': dict(lib='SAED90', ports=[('a', 'in', None), ('b', 'in', (1, 0)), ('z', 'out', None), ('o', 'out', (1, 0))], wires=[('x', None), ('y', None), ('t', (1, 0))],
               inst=[('INVX1', 'g', {'INP': 'y', 'ZN': 'z'}), ('AND2X1', 'h', {'IN1': 't[1]', 'IN2': 't[0]', 'Q': 'o[0]'})],
               assigns=[('y', 'x'), ('x', 'a'), ('t', 'b'), ('o[1]', 'y')]),
    'v10': dict(lib='SAED90', ports=[('a', 'in', None), ('y', 'out', None), ('z', 'out', None), ('k', 'out', (1, 0))], wires=[('w', None), ('v', None), ('u', (1, 0))],
               inst=[('AND2X1', 'g', {'IN1': 'a', 'IN2': 'y', 'Q': 'z'})],
               assigns=[('y', 'w'), ('w', 'v'), ('v', "1'b1"), ('k', 'u'), ('u', "2'b01")]),
    # range bounds with different numbers of digits (direction must be decided numerically), part of a bus used, ascending range that crosses 9 -> 10
    'v11': dict(lib='SAED90', ports=[('d', 'in', (11, 8)), ('s', 'in', None), ('q', 'out', (9, 10)), ('r', 'out', (100, 99))], wires=[('t', (10, 9))],
               inst=[('INVX1', 'g0', {'INP': 'd[11]', 'ZN': 't[10]'}), ('AND2X1', 'g1', {'IN1': 'd[8]', 'IN2': 'd[9]', 'Q': 't[9]'}), ('XOR2X1', 'g2', {'IN1': 'd[10]', 'IN2': 's', 'Q': 'r[99]'})],
               assigns=[('q', 't'), ('r[100]', 't[9]')]),
    # sized constants whose value does not fit the size are truncated from the left (2'd6 = 2'b10, 1'd2 = 1'b0, 3'h1D = 3'b101)
    'v12': dict(lib='SAED90', ports=[('a', 'in', None), ('b', 'in', None), ('y', 'out', (3, 0)), ('p', 'out', None), ('q', 'out', None), ('r', 'out', (2, 0))], wires=[('n', None)],
               inst=[('NAND2X1', 'g', {'IN1': 'a', 'IN2': 'b', 'QN': 'n'})],
               assigns=[('y', ['concat', "2'd6", 'n', 'a']), (['concat', 'p', 'q'], ['concat', "1'd2", 'b']), ('r', "3'h1D")]),
    'v8': dict(lib='SAED90', ports=[('a', 'in', (1, 0)), ('z', 'out', (3, 0))], wires=[], inst=[('INVX1', 'g', {'INP': 'a[1]', 'ZN': 'z[3]'})],
               assigns=[(['concat', 'z[2]', 'z[1]', 'z[0]'], ['concat', 'a[0]', "2'b10"])]),
}


def bits(name, rng):
    if rng is None: return [name]
    l, r = rng
    idx = range(l, r + 1) if l <= r else range(l, r - 1, -1)
    return [f'{name}[{i}]' for i in idx]


def clean(n): return n[1:-1] if n.startswith('\\') else n


def expand(e, decl):
    """expression -> list of signal bit names / constants (MSB first as written)"""
    if isinstance(e, list): return [x for sub in e[1:] for x in expand(sub, decl)]
    if re.fullmatch(r"\d+'[bdh][0-9a-fA-F]+", e):
        w, rest = e.split("'")
        v = int(rest[1:], {'b': 2, 'd': 10, 'h': 16}[rest[0].lower()])
        return [f"1'b{(v >> (int(w) - 1 - k)) & 1}" for k in range(int(w))]
    n = clean(e)
    if n in decl and decl[n] is not None and '[' not in e: return bits(n, decl[n])
    return [n]


def vm_eval(vm, in_val, state_val, zero, ones):
    """-> ({output bit name: value}, {ff instance name: next state})"""
    decl = {clean(n): r for n, d, r in vm['ports']}
    decl.update({clean(n): r for n, r in vm['wires']})
    lib = getattr(techlib, vm['lib'])
    drv = {}
    for n, d, r in vm['ports']:
        if d == 'in':
            for b in bits(clean(n), r): drv[b] = ('in', b)
    for cell, iname, pins in vm['inst']:
        cc, ptab = lib.cells[cell]
        for p, e in pins.items():
            if ptab[p][1]: drv[expand(e, decl)[0]] = ('inst', cell, clean(iname), p)
    for lhs, rhs in vm['assigns']:
        for t, s_ in zip(expand(lhs, decl), expand(rhs, decl)): drv[t] = ('alias', s_)
    memo = {}

    def val(b):
        if b.startswith("1'b"): return ones if b[3] == '1' else zero
        if b in memo: return memo[b]
        d = drv.get(b)
        if d is None: v = zero
        elif d[0] == 'in': v = in_val[b]
        elif d[0] == 'alias': v = val(d[1])
        else:
            _, cell, iname, pin = d
            v = inst_out(cell, iname)[pin]
        memo[b] = v
        return v
    imemo = {}

    def inst_out(cell, iname):
        if iname in imemo: return imemo[iname]
        cc, ptab = lib.cells[cell]
        pins = next(p for c_, n_, p in vm['inst'] if clean(n_) == iname)
        ins = [p for p, (i, o) in sorted(ptab.items(), key=lambda kv: kv[1][0]) if not o]
        outs = [p for p, (i, o) in sorted(ptab.items(), key=lambda kv: kv[1][0]) if o]
        V = {p: (val(expand(pins[p], decl)[0]) if p in pins and pins[p] is not None else zero) for p in ins}
        if 'DFF' in cell:
            st = state_val[iname]
            r = {'Q': st, 'QN': st ^ ones}
        else:
            r = c19.datasheet(c19.family(cell), ins, outs, V, ones)
        imemo[iname] = r
        return r
    outs = {}
    for n, d, r in vm['ports']:
        if d == 'out':
            for b in bits(clean(n), r): outs[b] = val(b)
    nxt = {}
    for cell, iname, pins in vm['inst']:
        if 'DFF' in cell: nxt[clean(iname)] = val(expand(pins['D'], decl)[0])
    return outs, nxt


def render_verilog(vm, rng, style):
    """style: dict(decl='split'|'joined', order='source'|'shuffle', comments=bool, attrs=bool, pinorder='decl'|'shuffle', ws='normal'|'dense'|'wide')"""
    W = {'normal': ' ', 'dense': ' ', 'wide': '  \t '}[style['ws']]
    nl = '\n' if style['ws'] != 'dense' else ' '
    hdr = [n for n, d, r in vm['ports']]
    stmts = []
    groups = {}
    for n, d, r in vm['ports']: groups.setdefault((d, r), []).append(n)
    if style['decl'] == 'joined':
        for (d, r), names in groups.items():
            rs = '' if r is None else f'[{r[0]}:{r[1]}]{W}' if r[0] != r[1] or rng.random() < 0.5 else f'[{r[0]}]{W}'
            stmts.append(f'{"input" if d == "in" else "output"}{W}{rs}{("," + W).join(names)};')
    else:
        for n, d, r in vm['ports']:
            rs = '' if r is None else f'[{r[0]}:{r[1]}]{W}'
            stmts.append(f'{"input" if d == "in" else "output"}{W}{rs}{n};')
    red = style.get('redecl', 'none')          # port nets declared as wire as well, before or after their direction (seed C11-r7mut2: "first declaration wins")
    if red != 'none':
        ws_ = [f'wire{W}' + ('' if r is None else f'[{r[0]}:{r[1]}]{W}') + f'{n};' for n, d, r in vm['ports']]
        stmts = ws_ + stmts if red == 'before' else stmts + ws_
    for n, r in vm['wires']:
        rs = '' if r is None else f'[{r[0]}:{r[1]}]{W}'
        stmts.append(f'wire{W}{rs}{n};')

    def ex(e):
        if isinstance(e, list): return '{' + (',' + W).join(ex(x) for x in e[1:]) + '}'
        m = re.fullmatch(r"(\d+)'b([01]+)", e)
        if m and style.get('constfmt', 'b') != 'b':          # the same constant in another base / letter case
            w, v = int(m.group(1)), int(m.group(2), 2)
            f = style['constfmt']
            return f"{w}'{f}{v:x}" if f in 'hH' else (f"{w}'{f}{v}" if f in 'dD' else f"{w}'{f}{m.group(2)}")
        return e
    for cell, iname, pins in vm['inst']:
        items = list(pins.items())
        if style['pinorder'] == 'shuffle': rng.shuffle(items)
        body = (',' + W).join(f'.{p}{W if style["ws"] == "wide" else ""}({W if style["ws"] == "wide" else ""}{ex(e)}{W if style["ws"] == "wide" else ""})' for p, e in items)
        pre = '(* keep = "true" *) ' if style['attrs'] and rng.random() < 0.5 else ''
        stmts.append(f'{pre}{cell}{W}{iname}{W}({body});')
    for lhs, rhs in vm['assigns']: stmts.append(f'assign{W}{ex(lhs)}{W}={W}{ex(rhs)};')
    if style['order'] == 'shuffle': rng.shuffle(stmts)
    out = []
    if style['comments']: out.append('// generated netlist\n/* multi\n line * comment */' if style['ws'] != 'dense' else '/* multi\n line * comment */')
    out.append(f'module{W}top{W}({(","+W).join(hdr)});')
    for s_ in stmts:
        out.append(s_)
        if style['comments'] and rng.random() < 0.5: out.append(rng.choice(['/** doc **/', '/****/', '/* x**/', '/* a * b */', '/***/']) )
        if style['comments'] and rng.random() < 0.4: out.append(rng.choice((['// note ; endmodule', '// y'] if style['ws'] != 'dense' else []) + ['/* x */', '(* attr *)' if style['attrs'] else '/* y ; */']))
    out.append('endmodule')
    return nl.join(out) + '\n'


def styles(tier, rng):
    S = []
    base = dict(decl='split', order='source', comments=False, attrs=False, pinorder='decl', ws='normal')
    S.append(dict(base))
    S.append(dict(base, decl='joined'))
    S.append(dict(base, order='shuffle'))
    S.append(dict(base, pinorder='shuffle', comments=True))
    S.append(dict(base, attrs=True, comments=True, ws='wide'))
    S.append(dict(base, ws='dense', decl='joined', pinorder='shuffle'))
    for f in 'hdBHD': S.append(dict(base, constfmt=f, comments=(f in 'hB')))
    S.append(dict(base, redecl='before'))
    S.append(dict(base, redecl='after', decl='joined'))
    n = 3 if tier == 'quick' else 120
    for _ in range(n):
        S.append(dict(decl=rng.choice(['split', 'joined']), order=rng.choice(['source', 'shuffle']), comments=rng.random() < 0.5, attrs=rng.random() < 0.3,
                      pinorder=rng.choice(['decl', 'shuffle']), ws=rng.choice(['normal', 'dense', 'wide']), constfmt=rng.choice('bbhdBHD'), redecl=rng.choice(['none', 'none', 'before', 'after'])))
    return S


@lanes.pathwise
def verilog_job(job):
    vname, sidx, style, bf, seed = job
    rep = common.Report()
    vm = VMODELS[vname]
    rng = random.Random(f'{seed}/{vname}/{sidx}')
    text = render_verilog(vm, rng, style)
    rep.counts['texts'] += 1
    data = {'mode': 'verilog', 'job': [vname, sidx, style, bf, seed]}
    lib = getattr(techlib, vm['lib'])
    try:
        c = verilog.parse(text, tlib=lib, branchforks=bf)
        inst_names = {clean(n) for _, n, _ in vm['inst']}
        sig_names = {b for n, r in vm['wires'] for b in bits(clean(n), r)}
        missing = sorted(inst_names - set(c.cells)) + sorted(sig_names - set(c.forks))
        c.resolve_tlib_cells(lib)
    except Exception as e:
        rep.violation(f'verilog/exception={type(e).__name__}/{vname}', f'{vname} style {style}: parse/resolve raised {type(e).__name__}: {str(e)[:200]}\n{text[:400]}', data); return rep
    if missing:
        rep.violation(f'verilog/names/{vname}', f'{vname}: instances / signals {missing[:4]} of the text are not found under their names (cells {sorted(c.cells)[:6]})', data); return rep
    want_ports = [b for n, d, r in vm['ports'] for b in bits(clean(n), r)]
    got_ports = [n.name if n is not None else None for n in c.io_nodes]
    if got_ports != want_ports:
        rep.violation(f'verilog/port-order/{vname}', f'{vname} style {style}: ports {got_ports}, declaration order gives {want_ports}', data); return rep
    try:
        s = LogicSim(c, 3, m=2)
        ins = lanes.symbolize(s)
        lanes.simulate(s)
    except Exception as e:
        rep.violation(f'verilog/exception={type(e).__name__}/{vname}', f'{vname}: simulating the parsed circuit raised {type(e).__name__}: {e}', data); return rep
    sn = c.s_nodes
    in_val = {n.name: ins[(i, 0, 0)] for i, n in enumerate(sn) if i < len(c.io_nodes)}
    st_val = {n.name: ins[(i, 0, 0)] for i, n in enumerate(sn) if i >= len(c.io_nodes)}
    outs, nxt = vm_eval(vm, in_val, st_val, lanes.ZERO, lanes.ONES)
    bad = []
    for i, n in enumerate(sn):
        if i < len(c.io_nodes):
            if n.name in outs: bad.append(((s.s[1, i, 0, 0] ^ outs[n.name]) & 7) != 0)
        elif n.name in nxt: bad.append(((s.s[1, i, 0, 0] ^ nxt[n.name]) & 7) != 0)
    if set(st_val) != set(nxt):
        rep.violation(f'verilog/state-elements/{vname}', f'{vname}: state elements {sorted(st_val)}, netlist has {sorted(nxt)}', data); return rep
    rep.counts['paths'] += 1; rep.counts['ops'] += len(s.ops); rep.counts['obligations'] += len(bad)
    q = lanes.Q(rep)
    r = q.check(z3.Or(bad)) if bad else z3.unsat
    if r == z3.unsat:
        rep.counts['discharged'] += len(bad)
        if bf:                     # requesting branch forks only inserts forks (compared before resolution)
            c0 = verilog.parse(text, tlib=lib, branchforks=False); c1 = verilog.parse(text, tlib=lib, branchforks=True)
            k0 = {(n.name, n.kind) for n in c0.nodes}; k1 = {(n.name, n.kind) for n in c1.nodes}
            extra = k1 - k0
            if not k0 <= k1 or any(k != '__fork__' for _, k in extra) or [n.name for n in c0.io_nodes] != [n.name for n in c1.io_nodes] or len(c1.lines) != len(c0.lines) + len(extra):
                rep.violation('verilog/branchforks', f'{vname}: branchforks=True changes more than inserting forks: extra nodes {sorted(extra)[:4]}, missing {sorted(k0 - k1)[:4]}', data)
        rep.sample({'model': vname, 'style': style, 'branchforks': bf, 'text': text[:260], 'verdict': 'unsat'}, limit=2)
    elif r == z3.sat:
        mb = lanes.model_bytes(q.model(), ins)
        data['in_bytes'] = [[list(k), v] for k, v in mb.items() if v]
        ok, what = replay(data)
        if ok: rep.violation(f'verilog/function/{vname}', f'{vname} style {style} branchforks={bf}: {what}', data)
        else: rep.error(f'{vname}: counterexample does not replay')
    else: rep.error('unknown')
    return rep


def replay_verilog(data):
    vname, sidx, style, bf, seed = data['job']
    vm = VMODELS[vname]
    text = render_verilog(vm, random.Random(f'{seed}/{vname}/{sidx}'), style)
    lib = getattr(techlib, vm['lib'])
    try:
        c = verilog.parse(text, tlib=lib, branchforks=bf); c.resolve_tlib_cells(lib)
    except Exception as e:
        return True, f'{type(e).__name__}: {str(e)[:200]}'
    want_ports = [b for n, d, r in vm['ports'] for b in bits(clean(n), r)]
    got_ports = [n.name if n is not None else None for n in c.io_nodes]
    if got_ports != want_ports: return True, f'ports {got_ports} vs {want_ports}'
    s = LogicSim(c, 3, m=2)
    for (i, p, b), v in {tuple(k): v for k, v in data.get('in_bytes', [])}.items(): s.s[0, i, p, b] = v
    s.s_to_c(); s.c_prop(); s.c_to_s()
    sn = c.s_nodes
    in_val = {n.name: int(s.s[0, i, 0, 0]) for i, n in enumerate(sn) if i < len(c.io_nodes)}
    st_val = {n.name: int(s.s[0, i, 0, 0]) for i, n in enumerate(sn) if i >= len(c.io_nodes)}
    outs, nxt = vm_eval(vm, in_val, st_val, 0, 255)
    bad = []
    for i, n in enumerate(sn):
        w = outs.get(n.name) if i < len(c.io_nodes) else nxt.get(n.name)
        if w is not None and (int(s.s[1, i, 0, 0]) ^ w) & 7: bad.append((n.name, int(s.s[1, i, 0, 0]) & 7, w & 7))
    return bool(bad), f'(port/state, simulated, netlist)={bad[:3]} for text:\n{text[:500]}'


# ------------------------------------------------------------------------------------------------ bench texts and bench <-> Verilog pairs

BENCH_KINDS = {'AND2': ('AND', 'AND2X1', ['IN1', 'IN2'], 'Q'), 'OR2': ('OR', 'OR2X1', ['IN1', 'IN2'], 'Q'), 'NAND2': ('NAND', 'NAND2X1', ['IN1', 'IN2'], 'QN'),
               'NOR2': ('NOR', 'NOR2X1', ['IN1', 'IN2'], 'QN'), 'XOR2': ('XOR', 'XOR2X1', ['IN1', 'IN2'], 'Q'), 'INV1': ('NOT', 'INVX1', ['INP'], 'ZN'), 'BUF1': ('BUF', 'NBUFFX2', ['INP'], 'Z'),
               'AND3': ('and', 'AND3X1', ['IN1', 'IN2', 'IN3'], 'Q'), 'NOR3': ('nor', 'NOR3X1', ['IN1', 'IN2', 'IN3'], 'QN'), 'XNOR2': ('xnor', 'XNOR2X1', ['IN1', 'IN2'], 'Q'),
               'NAND4': ('nand', 'NAND4X0', ['IN1', 'IN2', 'IN3', 'IN4'], 'QN'), 'OR4': ('OR', 'OR4X1', ['IN1', 'IN2', 'IN3', 'IN4'], 'Q'), 'DFF': ('DFF', 'DFFX1', ['D'], 'Q'),
               'MUX21': ('MUX21', 'MUX21X1', ['IN1', 'IN2', 'S'], 'Q'), 'AO21': ('ao21', 'AO21X1', ['IN1', 'IN2', 'IN3'], 'Q'), 'OAI21': ('OAI21', 'OAI21X1', ['IN1', 'IN2', 'IN3'], 'QN')}


def bench_nls(seed, n):
    out = []
    k = 0
    while len(out) < n:
        rng = random.Random(f'{seed}/b/{k}'); k += 1
        n_in = rng.randint(2, 4); sigs = [f'i{j}' for j in range(n_in)]
        gates = []
        for j in range(rng.randint(2, 7)):
            kind = rng.choice([x for x in BENCH_KINDS if x != 'DFF'] + (['DFF'] if rng.random() < 0.3 else []))
            ar = len(BENCH_KINDS[kind][2])
            ins_ = [rng.choice(sigs) for _ in range(ar)]
            gates.append((f'g{j}', kind, [f't{j}'], ins_)); sigs.append(f't{j}')
        read = {i for g in gates for i in g[3]}
        outs_ = [g[2][0] for g in gates if g[2][0] not in read] or [gates[-1][2][0]]
        ports = [(f'i{j}', 'in') for j in range(n_in)] + [(o, 'out') for o in outs_]
        out.append(netlist.NL(f'bn{k}', ports, gates))
    return out


def render_bench(nl, rng, style):
    L = []
    ins_ = [p for p, d in nl.ports if d == 'in']; outs_ = [p for p, d in nl.ports if d == 'out']
    kw = (lambda s_: s_.upper()) if style.get('upper') else (lambda s_: s_)
    if style.get('split'):
        L += [f'{kw("input")}({p})' for p in ins_] + [f'{kw("output")}({p})' for p in outs_]
    else:
        L += [f'{kw("input")}({", ".join(ins_)})', f'{kw("output")}({", ".join(outs_)})']
    G = [f'{g[2][0]} = {BENCH_KINDS[g[1]][0]}({", ".join(g[3])})' for g in nl.gates]
    if style.get('shuffle'): rng.shuffle(G)
    L += G
    if style.get('comments'): L = ['# header comment'] + [x + ('   # c' if rng.random() < 0.3 else '') for x in L]
    return ('\n' if not style.get('oneline') else ' ').join(L) + '\n'


def render_verilog_from_nl(nl):
    L = [f'module top ({", ".join(p for p, d in nl.ports)});']
    L += [f'{"input" if d == "in" else "output"} {p};' for p, d in nl.ports]
    pn = {p for p, d in nl.ports}
    L += [f'wire {g[2][0]};' for g in nl.gates if g[2][0] not in pn]
    for g in nl.gates:
        _, cell, ipins, opin = BENCH_KINDS[g[1]]
        conns = [f'.{p}({s_})' for p, s_ in zip(ipins, g[3])] + [f'.{opin}({g[2][0]})'] + (['.CLK(i0)'] if g[1] == 'DFF' else [])
        L.append(f'{cell} {g[0]} ({", ".join(conns)});')
    L.append('endmodule')
    return '\n'.join(L) + '\n'


@lanes.pathwise
def bench_job(job):
    k, seed, style = job
    rep = common.Report()
    nl = bench_nls(seed, k + 1)[k]
    rng = random.Random(f'{seed}/bs/{k}')
    text = render_bench(nl, rng, style)
    vtext = render_verilog_from_nl(nl)
    rep.counts['texts'] += 2
    data = {'mode': 'bench', 'job': [k, seed, style]}
    res = {}
    for fmt in ('bench', 'verilog'):
        try:
            if fmt == 'bench': c = bench.parse(text)
            else:
                c = verilog.parse(vtext, tlib=techlib.SAED90); c.resolve_tlib_cells(techlib.SAED90)
        except Exception as e:
            rep.violation(f'{fmt}/exception={type(e).__name__}', f'{fmt} text raised {type(e).__name__}: {str(e)[:200]}\n{(text if fmt == "bench" else vtext)[:300]}', data); return rep
        want = [p for p, d in nl.ports] if fmt == 'verilog' else [p for p, d in nl.ports if d == 'in'] + [p for p, d in nl.ports if d == 'out']
        if [n.name for n in c.io_nodes] != want:
            rep.violation(f'{fmt}/port-order', f'{fmt}: ports {[n.name for n in c.io_nodes]}, text declares {want}', data); return rep
        s = LogicSim(c, 3, m=2); ins = lanes.symbolize(s); lanes.simulate(s)
        sn = c.s_nodes
        name_of = lambda n: n.name
        in_val = {n.name: z3.BitVec('in_' + n.name, 8) for n in sn[:len(c.io_nodes)]}
        st_names = [n.name for n in sn[len(c.io_nodes):]]
        # state gate names: bench = output signal name, verilog = instance name; map both to the gate name of the NL
        gmap = {g[2][0]: g[0] for g in nl.gates if g[1] == 'DFF'}; gmap.update({g[0]: g[0] for g in nl.gates if g[1] == 'DFF'})
        st_val = {gmap[n]: z3.BitVec('st_' + gmap[n], 8) for n in st_names}
        sub = [(ins[(i, 0, 0)], in_val[n.name]) for i, n in enumerate(sn[:len(c.io_nodes)])] + [(ins[(len(c.io_nodes) + j, 0, 0)], st_val[gmap[n]]) for j, n in enumerate(st_names)]
        outs, nxt = nl.evaluate({p: in_val[p] for p, d in nl.ports if d == 'in'}, st_val, lanes.ZERO, lanes.ONES)
        bad = []
        for i, n in enumerate(sn):
            term = z3.substitute(s.s[1, i, 0, 0], *sub)
            if i < len(c.io_nodes):
                if n.name in outs: bad.append(((term ^ outs[n.name]) & 7) != 0)
            else: bad.append(((term ^ nxt[gmap[n.name]]) & 7) != 0)
        rep.counts['paths'] += 1; rep.counts['obligations'] += len(bad)
        q = lanes.Q(rep)
        r = q.check(z3.Or(bad)) if bad else z3.unsat
        if r == z3.unsat: rep.counts['discharged'] += len(bad)
        elif r == z3.sat:
            rep.violation(f'{fmt}/function', f'{fmt} text does not simulate as the netlist it describes:\n{(text if fmt == "bench" else vtext)[:400]}', data)
        else: rep.error('unknown')
    if not rep.violations: rep.sample({'bench text': text[:200], 'verilog text': vtext[:200], 'verdict': 'both parse to the ground-truth function (hence equivalent)'}, limit=2)
    return rep


def replay(data):
    if data['mode'] == 'verilog': return replay_verilog(data)
    r = bench_job(tuple(data['job'][:2]) + (data['job'][2],))
    return bool(r.violations), (r.violations[0]['what'] if r.violations else 'ok')


def dispatch(job):
    return verilog_job(job[1]) if job[0] == 'v' else bench_job(job[1])


def run(tier, seed):
    J = []
    for vname in VMODELS:
        rng = random.Random(f'{seed}/styles/{vname}')
        for sidx, st in enumerate(styles(tier, rng)):
            for bf in (False, True): J.append(('v', (vname, sidx, st, bf, seed)))
    bstyles = [dict(), dict(upper=True, split=True), dict(shuffle=True, comments=True), dict(oneline=True), dict(upper=True, shuffle=True, split=True, comments=True)]
    for k in range(12 if tier == 'quick' else 600):
        J.append(('b', (k, seed, bstyles[k % len(bstyles)])))
    rep = common.pmap(dispatch, J, chunksize=2)
    cov = {
        'states': int(rep.counts['paths']), 'transitions': int(rep.counts['ops']) + int(rep.counts['paths']), 'traces_validated_against_impl': int(rep.counts['texts']),
        'obligations': int(rep.counts['obligations']), 'discharged': int(rep.counts['discharged']), 'rendered_texts': int(rep.counts['texts']),
        'explanation': 'per rendered text: real parser + resolve, one symbolic run of the real LogicSim, z3 equality of every output port (by position) and state element with the ground-truth function for all stimuli',
        'functions_encoded': common.fn_sha(verilog.VerilogTransformer.module, verilog.VerilogTransformer.sigsel, verilog.VerilogTransformer.concat, verilog.VerilogTransformer.range, bench.BenchTransformer, techlib.TechLib.pin_index),
        'bounds': {'verilog models': list(VMODELS), 'styles per model': len(styles(tier, random.Random(0))), 'port nets also declared as wire': ['not', 'before the direction', 'after the direction'], 'branchforks': [False, True], 'bench/verilog pairs': 12 if tier == 'quick' else 120},
        'exhaustive': False,
        'summary': f'{rep.counts["texts"]} texts, {rep.counts["obligations"]} obligations, {rep.counts["discharged"]} discharged',
    }
    return LEVEL, rep, cov, ASSUME
