"""C18 - STIL patterns map scan data onto flip-flops by chain order and inversion.
IR level (the public StilFile constructor): chains, inversion-marker placements, signal-group orders and call sequences are enumerated; every
pattern character in turn is a symbolic character (E2: the real tests()/responses()/tests_loc() fork through the alias matching of
logic.interpret) and the resulting arrays are compared with the STIL semantics written down in this file.  The grammar -> IR step is
compared on rendered STIL texts and the shipped files (bounded enumeration)."""
import itertools
import random

import numpy as np
import z3

from kyupy import stil, logic, verilog, techlib
from kyupy.logic_sim import LogicSim
from kyupy.stil import StilFile, Call

from vlib import common, ref2
from vlib import engine as eng_mod
from vlib.engine import Engine, EngineUnknown
from checks.c15 import SymChar

LEVEL = 'model_checking'
ASSUME = [
    'scan circuits (3-4 flip-flops, 2-3 primary inputs/outputs) are built with the real Verilog parser and resolved; chains (1 or 2), every subset of inversion-marker gaps, signal-group orders and call sequences are enumerated',
    'pattern characters: one character position at a time is a symbolic 8-bit code (all other characters concrete), so every alias class of every position is covered by forking; characters interact only by position',
    'STIL semantics oracle in this file: first shifted character <-> cell nearest scan-out; loads inverted by the markers between scan-in and the cell, unloads by those between the cell and scan-out; unknown / unassigned not inverted '
    '(compared modulo {X,-}); N in STIL means "-" ; launch-on-capture value = transition(loaded value, 2-valued next state of the netlist) per flip-flop and transition(launch, capture) per input, pulses count as their settled value',
    'launch-on-capture flows: pulses in launch and capture (standard), no launch pulse, no launch call, launch pulse without capture pulse (state unchanged; primary-input values of the second vector left open)',
]

SRC = '''module m(si, ck, a, b, so, z, y); input si, ck, a, b; output so, z, y; wire q1, q2, q3, q4, n1;
 DFFX1 rxI(.D(si), .CLK(ck), .Q(q1)); DFFX1 f2(.D(n1), .CLK(ck), .Q(q2)); DFFX1 f3S(.D(q2), .CLK(ck), .Q(q3), .QN(q4));
 XOR2X1 g0(.IN1(q1), .IN2(a), .Q(n1)); AND2X1 g1(.IN1(b), .IN2(q3), .Q(z)); NBUFFX2 g2(.INP(q3), .Z(so)); NOR2X1 g3(.IN1(q4), .IN2(a), .QN(y)); endmodule'''


SRC2 = '''module m(b, so, a, z, si, y, ck); input si, ck, a, b; output so, z, y; wire q1, q2, q3, q4, n1;
 DFFX1 f3S(.D(q2), .CLK(ck), .Q(q3), .QN(q4)); DFFX1 rxI(.D(si), .CLK(ck), .Q(q1)); DFFX1 f2(.D(n1), .CLK(ck), .Q(q2));
 XOR2X1 g0(.IN1(q1), .IN2(a), .Q(n1)); AND2X1 g1(.IN1(b), .IN2(q3), .Q(z)); NBUFFX2 g2(.INP(q3), .Z(so)); NOR2X1 g3(.IN1(q4), .IN2(a), .QN(y)); endmodule'''


def circuit(variant=0):
    c = verilog.parse(SRC2 if variant else SRC, tlib=techlib.SAED90)
    c.resolve_tlib_cells(techlib.SAED90)
    return c


class SymStr(list):
    """a string some of whose characters are symbolic; supports what StilFile does with call parameters"""
    def replace(self, old, new):
        out = SymStr()
        for ch in self:
            if isinstance(ch, str): out += list(ch.replace(old, new)) if ch != old else list(new)
            elif len(old) == 1 and ch == old: out += list(new)          # forks on the symbolic character
            else: out.append(ch)
        return out


def cases(tier):
    """(chain layout, marker subset, group orders, call sequence kind)"""
    C = []
    cells = ['rxI', 'f2', 'f3S']
    layouts = [[('1', 'si', cells, 'so')], [('1', 'si', ['rxI', 'f2'], 'so'), ('2', 'a', ['f3S'], 'z')]]
    for lay in layouts:
        ngaps = sum(len(ch[2]) + 1 for ch in lay)
        for markers in itertools.product([0, 1], repeat=ngaps):
            if tier == 'quick' and sum(markers) > (2 if len(lay) == 1 else 1): continue
            for pi_order in (['si', 'ck', 'a', 'b'], ['b', 'a', 'ck', 'si']):
                for po_order in (['so', 'z', 'y'], ['y', 'so', 'z']):
                    if tier == 'quick' and (pi_order[0] == 'b') != (po_order[0] == 'y'): continue
                    for seq in ('sa', 'loc', 'loc-nolaunch', 'mixed', 'loc-nocapture'):
                        C.append((lay, markers, pi_order, po_order, seq))
    for markers in ((2, 0, 0, 0), (0, 2, 0, 1), (0, 0, 0, 2), (1, 3, 0, 0)):          # several markers in one gap (single chain)
        for seq in ('sa', 'loc'):
            C.append((layouts[0], markers, ['si', 'ck', 'a', 'b'], ['so', 'z', 'y'], seq))
    return C


def flow(seq, p):
    """call flow of pattern p: 'sa' (capture only), 'loc' (launch with pulse + capture), 'loc-nolaunch' (launch call without pulse)"""
    if seq == 'mixed': return 'loc' if p == 0 else 'sa'
    return seq


def build_ir(case, strings):
    """-> (StilFile args, ground-truth description).  strings: {key: str or SymStr} for every pattern string"""
    lay, markers, pi_order, po_order, seq = case
    chains = {}
    mi = iter(markers)
    for name, si, cells, so in lay:
        lst = [si]
        for cname in cells:
            lst += ['!'] * next(mi)                      # a gap may hold several markers (two adjacent markers cancel)
            lst.append(cname)
        lst += ['!'] * next(mi)
        lst.append(so)
        chains[name] = lst
    groups = {'_pi': list(pi_order), '_po': list(po_order)}
    calls = []
    npat = 2
    for p in range(npat):
        lu = {}
        for name, si, cells, so in lay:
            lu[si] = strings[('load', p, si)]
            if p > 0: lu[so] = strings[('unload', p - 1, so)]
        calls.append(Call('load_unload', lu))
        if flow(seq, p) == 'sa':
            calls.append(Call('sa_capture', {'_pi': strings[('cpi', p)], '_po': strings[('cpo', p)]}))
        else:
            calls.append(Call('x_launch', {'_pi': strings[('lpi', p)], '_po': strings[('lpo', p)]}))
            calls.append(Call('x_capture', {'_pi': strings[('cpi', p)], '_po': strings[('cpo', p)]}))
    last = {so: strings[('unload', npat - 1, so)] for name, si, cells, so in lay}
    last.update({si: strings[('load', npat, si)] for name, si, cells, so in lay})
    calls.append(Call('load_unload', last))
    return (1.0, groups, chains, calls), npat


def default_strings(case, rng):
    lay, markers, pi_order, po_order, seq = case
    S = {}
    for p in range(3):
        for name, si, cells, so in lay:
            S[('load', p, si)] = ''.join(rng.choice('01') for _ in cells)
            S[('unload', p, so)] = ''.join(rng.choice('LHX') for _ in cells)
        clk = pi_order.index('ck')
        def pi(pulse):
            s_ = [rng.choice('01') for _ in pi_order]
            s_[clk] = 'P' if pulse else '0'
            return ''.join(s_)
        S[('cpi', p)] = pi(seq not in ('sa', 'loc-nocapture'))
        S[('lpi', p)] = pi(flow(seq, p) in ('loc', 'loc-nocapture'))
        S[('cpo', p)] = ''.join(rng.choice('LHXN') for _ in po_order)
        S[('lpo', p)] = ''.join(rng.choice('LHX') for _ in po_order)
    return S


CODE = {c: k for k, chars in {0: "0Ll", 3: "1Hh", 2: "-Zz", 5: "Rr/", 6: "Ff\\", 4: "Pp^", 7: "Nnv"}.items() for c in chars}


def code_of(ch):
    """documented code of a concrete STIL character after the N -> '-' replacement"""
    if ch == 'N': ch = '-'
    return CODE.get(ch, 1)


def expected(case, S, c, code):
    """ground truth arrays as nested lists; code(key, index) -> documented logic code of that character"""
    lay, markers, pi_order, po_order, seq = case
    interface = list(c.io_nodes) + [n for n in c.nodes if 'DFF' in n.kind]
    pos = {n.name: i for i, n in enumerate(interface)}
    npat = 2
    tests = [[2] * npat for _ in interface]; resp = [[2] * npat for _ in interface]; loc = [[None] * npat for _ in interface]
    inv = lambda v, flip: ((v if v in (1, 2) else v ^ 3) if flip else v)      # inversion flips initial and final value, unknowns stay
    mi = list(markers); k = 0
    lay_m = []
    for name, si, cells, so in lay:
        m = mi[k:k + len(cells) + 1]; k += len(cells) + 1
        lay_m.append((name, si, cells, so, m))
    for p in range(npat):
        for name, si, cells, so, m in lay_m:
            n = len(cells)
            for j, cname in enumerate(cells):
                idx = n - 1 - j                                   # first shifted character belongs to the cell nearest scan-out
                in_flip = sum(m[:j + 1]) % 2                      # markers between scan-in and the cell
                out_flip = sum(m[j + 1:]) % 2                     # markers between the cell and scan-out
                tests[pos[cname]][p] = inv(code(('load', p, si), idx), in_flip)
                resp[pos[cname]][p] = inv(code(('unload', p, so), idx), out_flip)
        for j, name in enumerate(pi_order): tests[pos[name]][p] = code(('cpi', p), j)
        for j, name in enumerate(po_order): resp[pos[name]][p] = code(('cpo', p), j)
    return interface, pos, tests, resp, lay_m


def trans(a, b):
    """documented transition value from initial a to final b (codes); pulses count as their settled value"""
    if a in (1, 2) or b in (1, 2): return 2 if (a == 2 and b == 2) else 1
    i, f = (a >> 1) & 1, b & 1
    return {(0, 0): 0, (0, 1): 5, (1, 0): 6, (1, 1): 3}[(i, f)]


def expected_loc(case, S, c, code):
    lay, markers, pi_order, po_order, seq = case
    interface, pos, tests, resp, lay_m = expected(case, S, c, code)
    npat = 2
    out = [[2] * npat for _ in interface]
    sn = ref2.s_nodes(c)
    for p in range(npat):
        init = {}
        for name, si, cells, so, m in lay_m:
            for j, cname in enumerate(cells): init[cname] = tests[pos[cname]][p]
        fl = flow(seq, p)
        cpi = {name: code(('cpi', p), j) for j, name in enumerate(pi_order)}
        ipi = {name: code(('lpi', p), j) for j, name in enumerate(pi_order)} if fl != 'sa' else dict(cpi)      # no launch call: inputs as in the capture call
        # next state: 2-valued netlist function of the FINAL components of the init values (unknown -> unknown)
        assign = {}
        unk = False
        for i, n in enumerate(sn):
            v = init.get(n.name, ipi.get(n.name))
            if v is None: assign[i] = 0; continue
            if v in (1, 2): unk = True
            assign[i] = 1 if (v & 1) else 0
        cap = ref2.Ref2(c, assign, 0, 1).captured()
        for i, n in enumerate(sn):
            if n.name in init:
                if fl == 'loc': nxt = None if unk else (3 if cap[i] & 1 else 0)       # launch and capture pulse: the state element takes the simulated next state
                else: nxt = init[n.name]                           # no launch pulse / no launch call: the state does not change
                out[pos[n.name]][p] = None if nxt is None else trans(init[n.name], nxt)
        for name in pi_order: out[pos[name]][p] = trans(ipi[name], cpi[name]) if fl != 'loc-nocapture' else None      # without capture pulse the input values of the second vector are left open
        for name in po_order: out[pos[name]][p] = 'PO'
    return out


def same_mod_unknown(a, b):
    if a is None or b is None: return True                           # oracle leaves the entry open (unknown inputs in LoC simulation)
    if b == 'PO': return True
    return int(a) == int(b) or (int(a) in (1, 2) and int(b) in (1, 2))


def run_case(case, S, c, symkey=None, eng=None, also=()):
    """real StilFile on the strings (possibly with one symbolic character) -> problem or None"""
    args, npat = build_ir(case, S)
    sf = StilFile(*args)
    if len(sf.patterns) != npat: return f'{len(sf.patterns)} patterns extracted from {npat} load/capture/unload groups'

    def code(key, idx):
        ch = S[key][idx]
        if isinstance(ch, str): return code_of(ch)
        # symbolic character: determined by the path condition
        if eng.valid(ch.e == ord('N')): return 2
        for k, chars in {0: "0Ll", 3: "1Hh", 2: "-Zz", 5: "Rr/", 6: "Ff\\", 4: "Pp^", 7: "nv"}.items():
            if eng.valid(z3.Or([ch.e == ord(x) for x in chars])): return k
        return 1
    seq = case[4]
    for cc in [c] + list(also):             # the same StilFile object serves several circuits one after the other
        try:
            # the real functions first: their forks determine the class of the symbolic character on this path
            t = sf.tests(cc)
            r = sf.responses(cc)
            l = sf.tests_loc(cc) if seq != 'sa' else None
        except (eng_mod.Infeasible, EngineUnknown): raise
        except Exception as e:
            return f'{type(e).__name__}: {e}'
        interface, pos, tests, resp, lay_m = expected(case, S, cc, code)
        tag = '' if cc is c else 'second circuit with the same StilFile object: '
        if t.shape != (len(interface), npat): return f'{tag}tests() shape {t.shape}'
        for i in range(len(interface)):
            for p in range(npat):
                if int(t[i, p]) != int(tests[i][p]): return f'{tag}tests(): {interface[i].name} pattern {p} = {int(t[i, p])}, STIL semantics give {tests[i][p]} (stimuli are compared exactly: unknown and unassigned are not inverted)'
        if r.shape != (len(interface), npat): return f'{tag}responses() shape {r.shape}'
        for i in range(len(interface)):
            for p in range(npat):
                if not same_mod_unknown(r[i, p], resp[i][p]): return f'{tag}responses(): {interface[i].name} pattern {p} = {int(r[i, p])}, STIL semantics give {resp[i][p]}'
        if l is not None:
            el = expected_loc(case, S, cc, code)
            for i in range(len(interface)):
                for p in range(npat):
                    if not same_mod_unknown(l[i, p], el[i][p]): return f'{tag}tests_loc(): {interface[i].name} pattern {p} = {int(l[i, p])}, STIL semantics give {el[i][p]}'
    return None


def case_job(job):
    case, seed = job
    rep = common.Report()
    c = circuit()
    rng = random.Random(f'{seed}/{case}')
    S0 = default_strings(case, rng)
    data0 = {'mode': 'ir', 'case': [[list(ch[:2]) + [ch[2], ch[3]] for ch in case[0]], list(case[1]), case[2], case[3], case[4]], 'seed': seed}
    # concrete run first (all characters as generated)
    p0 = run_case(case, S0, c, also=[circuit(1)])
    rep.counts['concolic_runs'] += 1
    found = []
    if p0: found.append((p0, None))
    else:
        keys = [k for k in S0 if (k[0] in ('load', 'unload') and k[1] < 2) or (k[0] in ('cpi', 'cpo') and k[1] < 2) or (k[0] in ('lpi', 'lpo') and k[1] < 2 and flow(case[4], k[1]) != 'sa')]
        for key in keys:
            for idx in range(len(S0[key])):
                if S0[key][idx] == 'P': continue                  # clock pulse characters steer the flow: kept concrete
                eng = Engine()

                def fn(eng, key=key, idx=idx):
                    v = z3.BitVec('ch', 8); eng.assume(z3.UGE(v, 33), z3.ULE(v, 126), v != ord('P'), v != ord('p'), v != ord('^'))
                    S = dict(S0)
                    S[key] = SymStr(list(S0[key][:idx]) + [SymChar(v)] + list(S0[key][idx + 1:]))
                    p = run_case(case, S, c, key, eng)
                    rep.counts['obligations'] += 1
                    if p:
                        mdl = eng.model()
                        found.append((p, (key, idx, chr(mdl.eval(v, model_completion=True).as_long()))))
                    else: rep.counts['discharged'] += 1
                    return 1
                try: eng.explore(fn)
                except EngineUnknown as e: rep.error(f'{case}: {e}')
                rep.counts['paths'] += eng.npaths; rep.counts['branches'] += eng.nbranches; rep.solver_s += eng.tsolve
                if found: break
            if found: break
    for p, sub in found[:1]:
        data = dict(data0, sub=[list(sub[0]), sub[1], sub[2]] if sub else None)
        ok, what = replay(data)
        key = 'scan-inversion' if any(case[1]) and ('tests()' in p or 'responses()' in p or 'tests_loc()' in p) and not replay(dict(data0, sub=data['sub'], nomarkers=True))[0] else 'stil/' + p.split(':')[0].split('(')[0]
        if ok: rep.violation(key, f'chains with markers {case[1]}, groups {case[2]}/{case[3]}, {case[4]}: {p}; replay: {what}', data)
        else: rep.error(f'{case}: {p} - does not replay')
    if not found: rep.sample({'inversion markers per gap': list(case[1]), 'pi order': case[2], 'po order': case[3], 'calls': case[4], 'verdict': 'all pattern arrays follow the STIL semantics for every character class at every position'}, limit=2)
    return rep


def replay_ir(data):
    lay = [tuple(ch[:2]) + (ch[2], ch[3]) for ch in data['case'][0]]
    markers = tuple(data['case'][1]) if not data.get('nomarkers') else tuple(0 for _ in data['case'][1])
    case = (lay, markers, data['case'][2], data['case'][3], data['case'][4])
    c = circuit()
    real_case = (lay, tuple(data['case'][1]), data['case'][2], data['case'][3], data['case'][4])
    S = default_strings(real_case, random.Random(f'{data["seed"]}/{real_case}'))
    if data.get('sub'):
        key, idx, ch = tuple(data['sub'][0]), data['sub'][1], data['sub'][2]
        key = tuple(key)
        S[key] = S[key][:idx] + ch + S[key][idx + 1:]
    p = run_case(case, S, c, also=[circuit(1)])
    return bool(p), str(p)


# ------------------------------------------------------------------------------------------------ grammar -> IR

def render_stil(case, S):
    args, npat = build_ir(case, S)
    _, groups, chains, calls = args
    L = ['STIL 1.0 { Design 2005; }', 'Header { Title "t"; }', 'Signals { "si" In; "so" Out; }', 'SignalGroups {']
    for g, names in groups.items(): L.append(f'  "{g}" = \'' + ' + '.join(f'"{n}"' for n in names) + '\';')
    L.append('}')
    L.append('ScanStructures {')
    for name, lst in chains.items():
        cells = ' '.join('!' if x == '!' else f'"m.{x}.SI"' for x in lst[1:-1])
        L.append(f'  ScanChain "{name}" {{ ScanLength {len([x for x in lst[1:-1] if x != "!"])}; ScanIn "{lst[0]}"; ScanOut "{lst[-1]}"; ScanInversion {sum(1 for x in lst[1:-1] if x == "!") % 2}; ScanCells {cells}; ScanMasterClock "ck"; }}')
    L.append('}')
    L.append('Timing { WaveformTable "_default_WFT_" { Period \'100ns\'; } }')
    L.append('PatternBurst "_burst_" { PatList { "_pattern_" { } } }')
    L.append('PatternExec { PatternBurst "_burst_"; }')
    L.append('Procedures { "load_unload" { W "_default_WFT_"; } }')
    L.append('Pattern "_pattern_" {')
    L.append('  W "_default_WFT_";')
    for k, cl in enumerate(calls):
        L.append(f'  "pattern {k}": Call "{cl.name}" {{')
        for pn, pv in cl.parameters.items():
            pv = pv if len(pv) < 3 else pv[:2] + '\n' + pv[2:]           # long vectors wrap over lines
            L.append(f'    "{pn}"={pv};')
        L.append('  }')
    L.append('}')
    return '\n'.join(L) + '\n'


def text_job(job):
    case, seed = job
    rep = common.Report()
    S = default_strings(case, random.Random(f'{seed}/t/{case}'))
    txt = render_stil(case, S)
    rep.counts['texts'] += 1
    args, npat = build_ir(case, S)
    want = StilFile(*args)
    data = {'mode': 'text', 'case': [[list(ch[:2]) + [ch[2], ch[3]] for ch in case[0]], list(case[1]), case[2], case[3], case[4]], 'seed': seed}
    try:
        got = stil.parse(txt)
        bad = None
        if got.signal_groups != want.signal_groups: bad = f'signal groups {got.signal_groups}'
        elif got.scan_chains != want.scan_chains: bad = f'scan chains {got.scan_chains}, text states {want.scan_chains}'
        elif [tuple(p) for p in got.patterns] != [tuple(p) for p in want.patterns]: bad = f'patterns {got.patterns[:1]}, text states {want.patterns[:1]}'
    except Exception as e:
        bad = f'{type(e).__name__}: {str(e)[:200]}'
    rep.counts['obligations'] += 1
    if bad: rep.violation('stil-text/' + bad.split(' ')[0], f'{bad}\n{txt[:300]}', data)
    else: rep.counts['discharged'] += 1
    return rep


def replay(data):
    if data['mode'] == 'ir': return replay_ir(data)
    lay = [tuple(ch[:2]) + (ch[2], ch[3]) for ch in data['case'][0]]
    case = (lay, tuple(data['case'][1]), data['case'][2], data['case'][3], data['case'][4])
    r = text_job((case, data['seed']))
    return bool(r.violations), r.violations[0]['what'][:300] if r.violations else 'ok'


def shipped_files(rep):
    """the two shipped STIL files: grammar accepts them and patterns have consistent lengths"""
    for f in ('/repo/tests/b15_2ig.sa_nf.stil.gz', '/repo/tests/b15_2ig.tf_nf.stil.gz'):
        try:
            s_ = stil.load(f)
            n = len(s_.patterns)
            ln = {len(p.load[si]) for p in s_.patterns for si in s_.si_ports if si in p.load}
            chain = {len([x for x in ch[1:-1] if x != '!']) for ch in s_.scan_chains.values()}
            rep.counts['texts'] += 1
            if n == 0 or not ln <= chain: rep.violation('stil-text/shipped', f'{f}: {n} patterns, load lengths {ln} vs chain lengths {chain}', {'mode': 'shipped'})
        except Exception as e:
            rep.violation('stil-text/shipped', f'{f}: {type(e).__name__}: {e}', {'mode': 'shipped'})


def dispatch(job):
    return case_job(job[1]) if job[0] == 'ir' else text_job(job[1])


def run(tier, seed):
    C = cases(tier)
    J = [('ir', (case, seed)) for case in C] + [('text', (case, seed)) for case in C[::3]]
    rep = common.pmap(dispatch, J, chunksize=1)
    shipped_files(rep)
    cov = {
        'states': int(rep.counts['paths']), 'transitions': int(rep.counts['branches']) + int(rep.counts['paths']), 'traces_validated_against_impl': int(rep.counts['concolic_runs']) + int(rep.counts['texts']),
        'obligations': int(rep.counts['obligations']), 'discharged': int(rep.counts['discharged']), 'cases': len(C), 'rendered_texts': int(rep.counts['texts']),
        'explanation': 'per (chain layout, marker subset, group orders, call sequence): each pattern character in turn symbolic; every path of the real tests()/responses()/tests_loc() compared with the STIL semantics oracle',
        'functions_encoded': common.fn_sha(StilFile.__init__, StilFile._maps, StilFile.tests, StilFile.tests_loc, StilFile.responses, logic.mv_transition, logic.mv_xor),
        'bounds': {'flip-flops': 3, 'chains': '1 (quick) / 1-2 (thorough)', 'markers': 'all subsets (quick: <= 2 markers)', 'patterns per file': 2},
        'exhaustive': False,
        'summary': f'{len(C)} cases, {rep.counts["paths"]} paths, {rep.counts["obligations"]} obligations, {rep.counts["discharged"]} discharged',
    }
    return LEVEL, rep, cov, ASSUME
