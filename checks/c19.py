"""C19 - built-in library cells: consistent pin tables and data-sheet Boolean functions.
Pin tables: finite assertions on the real TechLib objects against an independent re-parse of the declarations in techlib.py.
Functions: each implementation circuit runs once through the real LogicSim(m=2) on symbolic lanes (E1); z3 decides equality with
the data-sheet function selected by the cell's family name."""
import ast
import itertools
import re

import z3

from kyupy import techlib
from kyupy.logic_sim import LogicSim

from vlib import common, lanes, ref2

LEVEL = 'model_checking'
LIBS = ['GSC180', 'NANGATE', 'NANGATE_ZN', 'SAED32', 'SAED90']
ASSUME = [
    'data-sheet functions are selected by family regex on the cell name (vlib oracle in this file): AND/OR/NAND/NOR/XOR/XNOR n, buffers/inverters, AO/OA/AOI/OAI with the vendor pin grouping '
    '(letter groups A,B,C / consecutive IN-groups by the digits of the name), MUX2/21/41 (select pins S*, S0 = LSB), DEC24, half/full adders (sum on S/SO, carry on CO/C1), ISOLAND/ISOLOR, TIE/LOGIC constants',
    'sequential, tristate, clock-gating and power-switch cells: pin tables only (function outside the claim)',
    'declaration order is re-parsed independently from the TechLib(...) source strings in techlib.py (ast + own brace expansion)',
]


# ---------------------------------------------------------------------------------------------- independent declaration parse

def declared_libs():
    """{lib name: [(cell name, [input pins], [output pins])]} parsed from the source text of techlib.py"""
    src = open(techlib.__file__).read()
    tree = ast.parse(src)
    env, out = {}, {}
    for node in tree.body:
        if isinstance(node, ast.Assign) and len(node.targets) == 1 and isinstance(node.targets[0], ast.Name):
            name = node.targets[0].id
            v = node.value
            if isinstance(v, ast.Call) and getattr(v.func, 'id', None) == 'TechLib':
                text = eval(compile(ast.Expression(v.args[0]), '<techlib>', 'eval'), {}, dict(env))
                out[name] = parse_decls(text)
            else:
                try: env[name] = eval(compile(ast.Expression(v), '<techlib>', 'eval'), {}, dict(env))
                except Exception: pass
    return out


def expand(pattern):
    parts = [p[1:-1].split(',') if p.startswith('{') else [p] for p in re.split(r'(\{[^}]*\})', pattern) if p != '']
    return [''.join(x) for x in itertools.product(*parts)]


def parse_decls(text):
    cells = []
    for stmt in text.split(';'):
        stmt = stmt.strip()
        if not stmt: continue
        m = re.match(r'(\S+)\s*(.*)$', stmt, re.S)
        pat, body = m.group(1), m.group(2)
        ins = [x.strip() for g in re.findall(r'\binput\s*\(([^)]*)\)', body) for x in g.split(',') if x.strip()]
        outs = [x.strip() for g in re.findall(r'\boutput\s*\(([^)]*)\)', body) for x in g.split(',') if x.strip()]
        for name in expand(pat): cells.append((name, ins, outs))
    return cells


# ---------------------------------------------------------------------------------------------- data-sheet oracle

def family(name):
    b = re.sub(r'_(RVT|LVT|HVT)$', '', name)
    b = re.sub(r'(_X\d+|X\d+)$', '', b)
    return b


def AND(*v):
    r = v[0]
    for x in v[1:]: r = r & x
    return r


def OR(*v):
    r = v[0]
    for x in v[1:]: r = r | x
    return r


def XOR(*v):
    r = v[0]
    for x in v[1:]: r = r ^ x
    return r


def datasheet(fam, ins, outs, V, ONES):
    """-> {output pin: term} or None when the family has no combinational data-sheet function in scope.
    ins/outs: declared pin names in order; V: {input pin: term}."""
    P = [V[p] for p in ins]
    N = lambda x: x ^ ONES
    one_out = outs[0] if len(outs) == 1 else None
    m = re.fullmatch(r'(NAND|NOR|AND|OR|XNOR|XOR)(\d)', fam)
    if m and one_out:
        k, n = m.group(1), int(m.group(2))
        if n != len(P): return {'__error__': f'{fam} declares {len(P)} inputs'}
        r = {'AND': AND, 'NAND': AND, 'OR': OR, 'NOR': OR, 'XOR': XOR, 'XNOR': XOR}[k](*P)
        return {one_out: N(r) if k in ('NAND', 'NOR', 'XNOR') else r}
    if re.fullmatch(r'BUF|CLKBUF|NBUFF|AOBUF|DELLN\d', fam) and one_out: return {one_out: P[0]}
    if re.fullmatch(r'INV|AOINV|IBUFF', fam) and one_out: return {one_out: N(P[0])}
    if fam in ('TIEH', 'LOGIC1') and one_out: return {one_out: ONES}
    if fam in ('TIEL', 'LOGIC0') and one_out: return {one_out: ONES ^ ONES}
    m = re.fullmatch(r'(AOI|OAI|AO|OA)(\d+)', fam)
    if m and one_out:
        kind, digits = m.group(1), [int(d) for d in m.group(2)]
        if sum(digits) != len(ins): return {'__error__': f'{fam} declares {len(ins)} inputs'}
        letters = [re.match(r'[A-Za-z]+', p).group(0) for p in ins]
        if len(set(letters)) > 1:                    # vendor grouping by letter (A, B1, B2, C1, C2 / A0, A1, B0)
            groups = {}
            for p, l in zip(ins, letters): groups.setdefault(l, []).append(V[p])
            groups = list(groups.values())
            if sorted(len(g) for g in groups) != sorted(digits): return {'__error__': f'{fam}: pin groups {[len(g) for g in groups]} do not match the name'}
        else:                                        # consecutive grouping (IN1..INn / A1..An)
            groups, k = [], 0
            for d in digits: groups.append(P[k:k + d]); k += d
        if kind in ('AO', 'AOI'): r = OR(*[AND(*g) for g in groups])
        else: r = AND(*[OR(*g) for g in groups])
        return {one_out: N(r) if kind.endswith('I') else r}
    if re.fullmatch(r'MUX2|MX2|MUX21|MUX41', fam) and one_out:
        sel = [p for p in ins if p.startswith('S')]
        data = [p for p in ins if not p.startswith('S')]
        if len(data) != 2 ** len(sel): return {'__error__': f'{fam}: {len(data)} data / {len(sel)} select pins'}
        r = None
        for k, d in enumerate(data):
            cond = AND(*[(V[s] if (k >> j) & 1 else N(V[s])) for j, s in enumerate(sel)])
            r = (cond & V[d]) if r is None else (r | (cond & V[d]))
        return {one_out: r}
    if fam in ('FA', 'ADDF', 'FADD') and len(P) == 3:
        a, b, c = P
        return {[o for o in outs if o.startswith('S')][0]: a ^ b ^ c, [o for o in outs if o.startswith('C')][0]: (a & b) | (a & c) | (b & c)}
    if fam in ('HA', 'ADDH', 'HADD') and len(P) == 2:
        a, b = P
        return {[o for o in outs if o.startswith('S')][0]: a ^ b, [o for o in outs if o.startswith('C')][0]: a & b}
    if fam == 'DEC24' and len(P) == 2 and len(outs) == 4:
        return {o: AND(*[(P[j] if (k >> j) & 1 else N(P[j])) for j in range(2)]) for k, o in enumerate(outs)}
    if re.fullmatch(r'ISOLAND(AO)?', fam) and one_out: return {one_out: N(V['ISO']) & V['D']}
    if re.fullmatch(r'ISOLOR(AO)?', fam) and one_out: return {one_out: V['ISO'] | V['D']}
    return None


# ---------------------------------------------------------------------------------------------- checks

def pin_table_problems(libname, lib, decls):
    probs = []
    n = 0
    for name, ins, outs in decls:
        n += 1
        if name not in lib.cells:
            probs.append((name, 'name does not expand to a definition')); continue
        cc, pins = lib.cells[name]
        if len(set(ins + outs)) != len(ins + outs): probs.append((name, 'a pin is declared twice'))
        if sorted(pins) != sorted(ins + outs): probs.append((name, f'pin table {sorted(pins)} != declaration {sorted(ins + outs)}')); continue
        for k, p in enumerate(ins):
            if pins[p] != (k, False): probs.append((name, f'input pin {p} is {pins[p]}, declared input #{k}'))
        for k, p in enumerate(outs):
            if pins[p] != (k, True): probs.append((name, f'output pin {p} is {pins[p]}, declared output #{k}'))
        io = [x.name for x in cc.io_nodes]
        if sorted(io) != sorted(ins + outs) or len(io) != len(set(io)): probs.append((name, f'implementation ports {io} != declared pins'))
        impl_in = [x.name for x in cc.io_nodes if len(x.ins) == 0]
        impl_out = [x.name for x in cc.io_nodes if len(x.ins) > 0]
        if impl_in != ins or impl_out != outs: probs.append((name, f'implementation has inputs {impl_in} outputs {impl_out}, declared {ins} / {outs}'))
    extra = set(lib.cells) - {d[0] for d in decls}
    for e in sorted(extra): probs.append((e, 'cell defined but not declared'))
    return probs, n


def function_check(rep, libname, name, ins, outs, cc, concrete_bytes=None):
    """E1: implementation circuit through the real LogicSim vs data sheet.  Returns list of (out pin, status)."""
    fam = family(name)
    if any(ref2.is_state(n.kind) for n in cc.nodes): return 'sequential'
    if datasheet(fam, ins, outs, {p: 0 for p in ins}, 255) is None: return 'no-datasheet-function'
    s = LogicSim(cc, 8, m=2)
    idx = {n.name: i for i, n in enumerate(cc.s_nodes)}
    if concrete_bytes is None:
        sym = lanes.symbolize(s)
        V = {p: sym[(idx[p], 0, 0)] for p in ins}
        ONES = lanes.ONES
    else:
        for p in ins: s.s[0, idx[p], 0, 0] = concrete_bytes.get(p, 0)
        V = {p: int(concrete_bytes.get(p, 0)) for p in ins}
        ONES = 255
    spec = datasheet(fam, ins, outs, V, ONES)
    if spec is None: return 'no-datasheet-function'
    if '__error__' in spec: return ('error', spec['__error__'])
    if concrete_bytes is None: lanes.simulate(s)
    else: s.s_to_c(); s.c_prop(); s.c_to_s()
    res = []
    for o, term in spec.items():
        got = s.s[1, idx[o], 0, 0]
        if concrete_bytes is None: res.append((o, got, term))
        else: res.append((o, int(got), int(term) & 255))
    return res, (sym if concrete_bytes is None else None)


def _cell_path(rep, libname, lib, name, ins, outs, cc, fam):
    try:
        r = function_check(rep, libname, name, ins, outs, cc)
    except Exception as e:
        rep.violation(f'cell={libname}/{fam}', f'{libname}.{name}: simulating the implementation raised {type(e).__name__}: {e}', {'mode': 'func', 'lib': libname, 'cell': name, 'bytes': {}})
        return
    if isinstance(r, str):
        rep.counts['cells_' + r] += 1
        if r == 'no-datasheet-function': rep.note(f'{libname}/{fam}: function outside the claim (pin table checked)')
        return
    if r[0] == 'error':
        rep.violation(f'cell={libname}/{fam}', f'{libname}.{name}: {r[1]}', {'mode': 'func', 'lib': libname, 'cell': name, 'bytes': {}})
        return
    obl, sym = r
    rep.counts['paths'] += 1
    rep.counts['ops'] += len(cc.nodes)
    rep.counts['obligations'] += len(obl)
    q = lanes.Q(rep)
    res = q.check(z3.Or([g != t for _, g, t in obl]))
    if res == z3.unsat:
        rep.counts['discharged'] += len(obl)
        rep.sample({'lib': libname, 'cell': name, 'family': fam, 'inputs': ins, 'outputs': outs, 'verdict': 'unsat'}, limit=8)
    elif res == z3.sat:
        mdl = q.model()
        idx = {n.name: i for i, n in enumerate(cc.s_nodes)}
        by = {p: mdl.eval(sym[(idx[p], 0, 0)], model_completion=True).as_long() for p in ins}
        data = {'mode': 'func', 'lib': libname, 'cell': name, 'bytes': by}
        ok, what = replay(data)
        if ok: rep.violation(f'cell={libname}/{fam}', what, data)
        else: rep.error(f'{libname}.{name}: counterexample does not replay')
    else:
        rep.error(f'{libname}.{name}: solver unknown')


def check_lib(libname):
    rep = common.Report()
    lib = getattr(techlib, libname)
    decls = declared_libs().get(libname)
    if decls is None:
        rep.error(f'no declaration source found for {libname}')
        return rep
    probs, n = pin_table_problems(libname, lib, decls)
    rep.counts['pin_tables'] += n
    for name, what in probs[:5]:
        rep.violation(f'pins={libname}/{family(name)}', f'{libname}.{name}: {what}', {'mode': 'pins', 'lib': libname, 'cell': name})
    seen = set()
    for name, ins, outs in decls:
        if name not in lib.cells: continue
        cc, pins = lib.cells[name]
        fam = family(name)
        if (id(cc), fam) in seen: continue
        seen.add((id(cc), fam))
        lanes.explore(lambda eng, name=name, ins=ins, outs=outs, cc=cc, fam=fam: _cell_path(rep, libname, lib, name, ins, outs, cc, fam), rep)
    return rep


def replay(data):
    lib = getattr(techlib, data['lib'])
    decls = {d[0]: d for d in declared_libs()[data['lib']]}
    if data['mode'] == 'pins':
        probs, _ = pin_table_problems(data['lib'], lib, list(decls.values()))
        hit = [p for p in probs if p[0] == data['cell']]
        return bool(hit), str(hit[:1])
    name, ins, outs = decls[data['cell']]
    cc = lib.cells[name][0]
    try:
        r = function_check(None, data['lib'], name, ins, outs, cc, concrete_bytes=data['bytes'])
    except Exception as e:
        return True, f'{name}: {type(e).__name__}: {e}'
    if isinstance(r, str): return False, r
    if r[0] == 'error': return True, r[1]
    bad = [(o, g, t) for o, g, t in r[0] if g != t]
    return bool(bad), f'{data["lib"]}.{name} inputs(lane bits)={data["bytes"]}: (pin, implementation, data sheet)={bad[:2]}'


def run(tier, seed):
    rep = common.pmap(check_lib, LIBS)
    ncells = sum(len(getattr(techlib, l).cells) for l in LIBS)
    cov = {
        'states': int(rep.counts['paths']), 'transitions': int(rep.counts['ops']), 'traces_validated_against_impl': len(rep.violations),
        'obligations': int(rep.counts['obligations']) + int(rep.counts['pin_tables']), 'discharged': int(rep.counts['discharged']) + int(rep.counts['pin_tables']),
        'cell_names': ncells, 'pin_tables_checked': int(rep.counts['pin_tables']),
        'distinct_implementations_with_function_check': int(rep.counts['paths']),
        'explanation': 'every cell name: pin table vs independent declaration parse (finite, exhaustive); every distinct combinational implementation in a claimed family: one symbolic run, z3 decides equality with the data sheet for all input combinations',
        'functions_encoded': common.fn_sha(techlib.TechLib.__init__, LogicSim.c_prop),
        'exhaustive': True,
        'summary': f'{ncells} names, {rep.counts["pin_tables"]} pin tables, {rep.counts["paths"]} function checks, {rep.counts["discharged"]} output pins proved',
    }
    return LEVEL, rep, cov, ASSUME
