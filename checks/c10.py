"""C10 - copy, pickle, fork elimination, cell substitution and library resolution preserve function and port/state order.
E1 before/after: the transformed circuit runs through the real LogicSim on symbolic lanes; z3 decides equality with
(a) the ref2 value of the untransformed circuit, (b) for substitution: a hierarchical evaluation that plugs the
implementation circuit in by pin position (open pin = 0)."""
import itertools
import pickle

import z3

from kyupy import bench, techlib
from kyupy.circuit import Circuit, Node, Line
from kyupy.logic_sim import LogicSim

from vlib import common, lanes, netlist, ref2

LEVEL = 'model_checking'
LIBS = ['GSC180', 'NANGATE', 'NANGATE_ZN', 'SAED32', 'SAED90']
ASSUME = [
    'circuit structure, transformation sequences and connected-pin subsets enumerated (bounds in evidence); all stimuli symbolic',
    'before-side oracle: ref2 of the original object graph; for substitution a hierarchical evaluation (implementation plugged in by pin position, unconnected instance pin = 0, cell state = state of the instance)',
    'instances are built with the Circuit API (explicit pins); the Verilog front end is covered by C11',
]

CUSTOM_IMPLS = {
    'X2OUT': 'input(A,B) output(Y,Z) Y=AND2(A,B) Z=XOR2(A,B)',
    'XOUTREAD': 'input(A,B) output(Y,Z) Y=NAND2(A,B) Z=INV1(Y)',
    'XOUTREAD2': 'input(A) output(Y1,Y2) Y2=INV1(A) Y1=BUF1(Y2)',
    'XOUTREAD3': 'input(A,B) output(Y1,Y2,Y3) Y3=NOR2(A,B) Y2=INV1(Y3) Y1=AND2(Y2,A)',
    'XOVERLAP': 'input(A,B) output(Y,Z) T=AND2(A,B) Y=INV1(T) Z=BUF1(T)',
    'XPASS': 'input(A) output(Y,Z) Y=BUF1(A) Z=INV1(Y)',
    'XIGN': 'input(A,B,C) output(Y) Y=OR2(A,C)',
    'XFAN': 'input(A,B) output(Y,Z) T=AND2(A,B) Y=OR2(A,T) Z=XNOR2(A,B)',
    'XNOOUT': 'input(A)',
    'XEMPTY': '',
    'XFEED': 'input(A) output(Y) Y=BUF1(A)',
    'XCONST': 'output(Y) Y=__const1__()',
    'XDFFSEQ': 'input(D,E) output(Q,QN) DE=AND2(D,E) Q=DFF(DE) QN=INV1(Q)',
    'XIGN2': 'input(A,B,C) output(Y) X=INV1(C) Y=AND2(X,A)',
    'XIGN3': 'input(A,B,C,D) output(Y,Z) X=NOR2(D,A) Y=OA21(X,C,A) Z=BUF1(X)',
    'XDEEP': 'input(A,B,C) output(Y,Z) T=NOR2(A,B) U=MUX21(T,C,A) Y=AO21(T,U,B) Z=BUF1(U)',
}


def custom_lib():
    cells = {}
    for k, txt in CUSTOM_IMPLS.items():
        c = bench.parse(txt)
        c.name = k
        c.eliminate_1to1_forks()
        cells[k] = c
    return cells


class HierRef(ref2.Ref2):
    """ref2 + instances of cells evaluated through their implementation circuit (by pin position)."""

    def __init__(self, circuit, assign, zero, ones, cells):
        super().__init__(circuit, assign, zero, ones)
        self.cells = cells
        self.sub = {}

    def _impl_eval(self, n):
        if id(n) in self.sub: return self.sub[id(n)]
        impl = self.cells[n.kind]
        sn = ref2.s_nodes(impl)
        a = {}
        k = 0
        for i, p in enumerate(sn):
            if i < len(impl.io_nodes):
                if len(p.ins) == 0:
                    l = n.ins[k] if k < len(n.ins) else None
                    a[i] = self.line(l) if l is not None else self.zero
                    k += 1
                else:
                    a[i] = self.zero
            else:
                a[i] = self.assign[self.pos[id(n)]]          # KeyError if the instance is not a state element of the outer circuit
        r = ref2.Ref2(impl, a, self.zero, self.ones)
        self.sub[id(n)] = (impl, r)
        return impl, r

    def out(self, n, pin):
        if n.kind in self.cells:
            impl, r = self._impl_eval(n)
            outs = [p for p in impl.io_nodes if len(p.ins) > 0]
            return r.line(outs[pin].ins[0])
        return super().out(n, pin)

    def captured(self):
        res = {}
        for i, n in enumerate(self.sn):
            if n.kind in self.cells:
                impl, r = self._impl_eval(n)
                st = [p for p in impl.nodes if ref2.is_state(p.kind)]
                if st and len(st[0].ins) > 0: res[i] = r.line(st[0].ins[0])
            elif len(n.ins) > 0 and n.ins[0] is not None:
                res[i] = self.line(n.ins[0])
            elif len(n.ins) > 0 and ref2.is_state(n.kind):
                res[i] = self.zero
        return res


def wrapper(kind, impl, in_mask, out_mask, variant=0):
    """circuit with one instance `u` of `kind`; instance input pin k connected iff in_mask[k]; output pin k iff out_mask[k]."""
    n_in = len([p for p in impl.io_nodes if len(p.ins) == 0])
    n_out = len([p for p in impl.io_nodes if len(p.ins) > 0])
    c = Circuit('w')
    u = Node(c, 'u', kind)
    if variant == 2:
        # bench-style netlist: the ports are the forks themselves; the first instance input is fed by an OUTPUT port (a driven fork
        # with its own cone) - if all instance outputs are open, the instance is pruned but the port and its cone must stay
        for k in range(n_in):
            if not in_mask[k]: continue
            if k == 0:
                a0, a1 = Node(c, 'a0'), Node(c, 'a1'); c.io_nodes += [a0, a1]
                g = Node(c, 'gq', 'AND2'); Line(c, a0, g); Line(c, a1, g)
                q = Node(c, 'q'); Line(c, g, q); c.io_nodes.append(q)
                Line(c, q, (u, 0))
            else:
                pi = Node(c, f'i{k}'); c.io_nodes.append(pi); Line(c, pi, (u, k))
        for k in range(n_out):
            if not out_mask[k]: continue
            f = Node(c, f'o{k}'); Line(c, (u, k), f); c.io_nodes.append(f)
        return c
    for k in range(n_in):
        if not in_mask[k]: continue
        if variant == 1 and k > 0 and in_mask[0]:
            src = c.forks['i0']                      # all connected inputs share one signal (fan-out fork)
        else:
            pi = Node(c, f'i{k}', 'input'); c.io_nodes.append(pi)
            src = Node(c, f'i{k}'); Line(c, pi, src)
        Line(c, src, (u, k))
    for k in range(n_out):
        if not out_mask[k]: continue
        f = Node(c, f'o{k}'); Line(c, (u, k), f)
        po = Node(c, f'o{k}', 'output'); c.io_nodes.append(po)
        if variant == 1:
            g = Node(c, f'g{k}', 'INV1'); Line(c, f, g)
            f2 = Node(c, f'n{k}'); Line(c, g, f2); Line(c, f2, po)
            po2 = Node(c, f'p{k}', 'output'); c.io_nodes.append(po2); Line(c, f, po2)
        else:
            Line(c, f, po)
    if not c.io_nodes:
        pi = Node(c, 'dummy', 'input'); c.io_nodes.append(pi)
        po = Node(c, 'dummyo', 'output'); c.io_nodes.append(po)
        Line(c, pi, po)
    return c


def compare(rep, before_names, expected, after, what, data):
    """expected: {s position: term} built over variables named like lanes.symbolize(tag='i') does; after: transformed circuit."""
    names_after = [n.name if (n.circuit is after and n.index < len(after.nodes) and after.nodes[n.index] is n) else f'<{n.name}: not in circuit>' for n in after.s_nodes]
    if names_after != before_names:
        # is it only a permutation among the state elements (ports untouched), with the function preserved element by element?
        np_ = len(after.io_nodes)
        if names_after[:np_] == before_names[:np_] and sorted(names_after[np_:]) == sorted(before_names[np_:]) and len(set(before_names)) == len(before_names) and expected:
            perm = [before_names.index(nm) for nm in names_after]           # position j after <- position perm[j] before
            subs = [(z3.BitVec(f'i{perm[j]}_p0_b0', 8), z3.BitVec(f'i{j}_p0_b0', 8)) for j in range(len(perm))]
            exp2 = {j: z3.substitute(expected[perm[j]], *subs) for j in range(len(perm)) if perm[j] in expected}
            if compare(rep, names_after, exp2, after, what, data) is None:
                return ('names-permuted', f'{what}: state elements change their order in s_nodes from {before_names[np_:]} to {names_after[np_:]} (ports and, element by element, the function are preserved)')
        return ('names', f'{what}: ports/state elements changed from {before_names} to {names_after}')
    if not expected:
        rep.counts['obligations'] += 1; rep.counts['discharged'] += 1
        return None
    s = LogicSim(after, 3, m=2)
    ins = lanes.symbolize(s)
    lanes.simulate(s)
    rep.counts['paths'] += 1
    rep.counts['ops'] += len(s.ops)
    bad = []
    for i, v in expected.items():
        bad.append(((s.s[1, i, 0, 0] ^ v) & 7) != 0)
    rep.counts['obligations'] += len(bad) + 1
    if not bad:
        rep.counts['discharged'] += 1
        return None
    q = lanes.Q(rep)
    r = q.check(z3.Or(bad))
    if r == z3.unsat:
        rep.counts['discharged'] += len(bad) + 1
        return None
    if r == z3.sat:
        return ('function', lanes.model_bytes(q.model(), ins))
    return ('unknown', None)


def sym_assign(n):
    return {i: z3.BitVec(f'i{i}_p0_b0', 8) for i in range(n)}


# ------------------------------------------------------------------------------------------------ (a) copy / pickle / forks

TRANSFORMS = {
    'copy': lambda c: c.copy(),
    'pickle': lambda c: pickle.loads(pickle.dumps(c)),
    'elim': lambda c: (c.eliminate_1to1_forks(), c)[1],
}


def apply_seq(recipe, seq):
    c = netlist.from_recipe(recipe)
    for t in seq: c = TRANSFORMS[t](c)
    return c


@lanes.pathwise
def seq_item(item):
    recipe, seq = item
    rep = common.Report()
    name = recipe[1]['name'] if recipe[0] == 'nl' else recipe[1]
    orig = netlist.from_recipe(recipe)
    names = [n.name for n in ref2.s_nodes(orig)]
    expected = ref2.Ref2(orig, sym_assign(len(names)), lanes.ZERO, lanes.ONES).captured()
    data = {'mode': 'seq', 'recipe': recipe, 'seq': list(seq)}
    try:
        after = apply_seq(recipe, seq)
        res = compare(rep, names, expected, after, f'{name} after {"+".join(seq)}', data)
    except Exception as e:
        ok, what = replay(dict(data, in_bytes=[]))
        if ok: rep.violation(f'seq={"+".join(seq)}/exception={type(e).__name__}', f'{name}: {what}', dict(data, in_bytes=[]))
        else: rep.error(f'{name} {seq}: {type(e).__name__}: {e}')
        return rep
    finish(rep, res, data, f'seq={"+".join(seq)}/{name}', name)
    if res is None: rep.sample({'circuit': name, 'transformations': list(seq), 'verdict': 'unsat (function and s_nodes preserved)'}, limit=3)
    return rep


def order_changed_only_by_node_removal(data):
    """re-applies the transformations one at a time: True iff every step after which s_nodes lists the state elements in another order
    is one that removes nodes (eliminate_1to1_forks, resolve); copy / pickle must keep the order they are given"""
    try:
        if data.get('mode') == 'subst':
            cells = lib_cells(data['lib'])
            c = wrapper(data['kind'], cells[data['kind']], data['in_mask'], data['out_mask'], data['variant'])
            c.resolve_tlib_cells(_Lib(cells))
            seq = data['post']
        else:
            c = netlist.from_recipe(data['recipe']); seq = data['seq']
        prev = [n.name for n in c.s_nodes]
        for t in seq:
            c = TRANSFORMS[t](c)
            cur = [n.name for n in c.s_nodes]
            if cur != prev and t != 'elim': return False
            prev = cur
        return True
    except Exception:
        return False


def finish(rep, res, data, key, name):
    if res is None: return
    kind, payload = res
    if kind == 'unknown':
        rep.error(f'{name}: solver unknown'); return
    d = dict(data, in_bytes=[[list(k), v] for k, v in payload.items() if v] if kind == 'function' else [])
    ok, what = replay(d)
    if ok and kind == 'function' and explained_by_sized(d):
        key, what = 'shape=sized-and-trailing-open-pin', f'{name}: {what} (sized AND/NAND primitive with a trailing open pin takes its arity from the connected pins instead of reading 0)'
    if ok and kind == 'names-permuted':
        removes_nodes = order_changed_only_by_node_removal(data)
        kind = 'names'
        if removes_nodes:          # Node.remove() moves the node with the highest index into the freed position (documented); s_nodes follows node order
            key, kind, what = 'order=state-elements-permuted-by-node-removal', 'function', f'{name}: {payload}'
    if ok and kind == 'names' and data.get('mode') == 'subst' and not any(data['out_mask']) and 'not in circuit' not in what and "'u'" in what.split('->')[0] and "'u'" not in what.split('->')[-1]:
        key, kind = 'shape=state-cell-with-all-outputs-open-removed', 'function'
    if ok: rep.violation(key if kind == 'function' else key + '/s_nodes', what, d)
    else: rep.error(f'{name}: counterexample does not replay ({kind})')


# ------------------------------------------------------------------------------------------------ (b) substitution / resolve

def lib_cells(libname):
    if libname == 'CUSTOM': return custom_lib()
    lib = getattr(techlib, libname)
    return {k: v[0] for k, v in lib.cells.items()}


class _Lib:
    def __init__(self, cells): self.cells = {k: (v, None) for k, v in cells.items()}


def build_subst(libname, kind, in_mask, out_mask, variant, post):
    cells = lib_cells(libname)
    before = wrapper(kind, cells[kind], in_mask, out_mask, variant)
    after = wrapper(kind, cells[kind], in_mask, out_mask, variant)
    after.resolve_tlib_cells(_Lib(cells))
    for t in post: after = TRANSFORMS[t](after)
    return cells, before, after


def finding_key(libname, kind, what):
    fam = kind
    import re
    fam = re.sub(r'_(RVT|LVT|HVT)$', '', fam); fam = re.sub(r'(_X\d+|X\d+)$', '', fam)
    return f'resolve={libname}/{fam}/{what}'


@lanes.pathwise
def subst_item(item):
    libname, kind, in_mask, out_mask, variant, post = item
    rep = common.Report()
    data = {'mode': 'subst', 'lib': libname, 'kind': kind, 'in_mask': list(in_mask), 'out_mask': list(out_mask), 'variant': variant, 'post': list(post)}
    try:
        cells, before, after = build_subst(libname, kind, in_mask, out_mask, variant, post)
    except Exception as e:
        ok, what = replay(dict(data, in_bytes=[]))
        if ok: rep.violation(finding_key(libname, kind, f'exception={type(e).__name__}'), what, dict(data, in_bytes=[]))
        else: rep.error(f'{libname}.{kind}: {type(e).__name__}: {e}')
        return rep
    names = [n.name for n in ref2.s_nodes(before)]
    try:
        expected = HierRef(before, sym_assign(len(names)), lanes.ZERO, lanes.ONES, cells).captured()
    except KeyError:
        # the instance is not a state element before resolution but its implementation holds state
        names_after = [n.name for n in after.s_nodes]
        d = dict(data, in_bytes=[])
        ok, what = replay(d)
        if ok: rep.violation(finding_key(libname, kind, 'latch-cell-becomes-state-element'), what, d)
        else: rep.error(f'{libname}.{kind}: oracle cannot evaluate, names {names} -> {names_after}')
        return rep
    try:
        res = compare(rep, names, expected, after, f'{libname}.{kind}', data)
    except Exception as e:
        d = dict(data, in_bytes=[])
        try: ok, what = replay(d)
        except Exception as e2: ok, what = True, f'the resolved circuit cannot be simulated: {type(e2).__name__}: {e2} (ports {[n.name for n in after.io_nodes]}, {len(after.nodes)} nodes left)'
        if ok: rep.violation(finding_key(libname, kind, 'function'), f'{libname}.{kind} inputs connected {list(in_mask)} outputs {list(out_mask)}: {what}', d)
        else: rep.error(f'{libname}.{kind} simulate after resolve: {type(e).__name__}: {e}')
        return rep
    finish(rep, res, data, finding_key(libname, kind, 'function'), kind)
    if res is None: rep.sample({'lib': libname, 'cell': kind, 'connected_inputs': list(in_mask), 'connected_outputs': list(out_mask), 'post': list(post), 'verdict': 'unsat'}, limit=5)
    return rep


def explained_by_sized(data):
    """True iff the transformed circuit's netlist semantics (open pin = 0) equals the before side and the simulator
    differs from it only by taking the arity of sized AND/NAND primitives from the connected pins."""
    in_bytes = {tuple(k): v for k, v in data.get('in_bytes', [])}
    try:
        if data['mode'] == 'seq':
            before = netlist.from_recipe(data['recipe']); after = apply_seq(data['recipe'], data['seq']); cells = None
        else:
            cells, before, after = build_subst(data['lib'], data['kind'], data['in_mask'], data['out_mask'], data['variant'], data['post'])
        n = len(ref2.s_nodes(before))
        assign = {i: in_bytes.get((i, 0, 0), 0) for i in range(n)}
        exp = (HierRef(before, assign, 0, 255, cells) if cells else ref2.Ref2(before, assign, 0, 255)).captured()
        strict = ref2.Ref2(after, assign, 0, 255).captured()
        if any((strict[i] ^ v) & 7 for i, v in exp.items()): return False
        s = LogicSim(after, 3, m=2)
        for (i, p, b), v in in_bytes.items(): s.s[0, i, p, b] = v
        s.s_to_c(); s.c_prop(); s.c_to_s()
        ref2.SIZED_BY_CONNECTION = True
        try: alt = ref2.Ref2(after, assign, 0, 255).captured()
        finally: ref2.SIZED_BY_CONNECTION = False
        return not any((int(s.s[1, i, 0, 0]) ^ v) & 7 for i, v in alt.items())
    except Exception:
        return False


def replay(data):
    in_bytes = {tuple(k): v for k, v in data.get('in_bytes', [])}
    if data['mode'] == 'seq':
        orig = netlist.from_recipe(data['recipe'])
        names = [n.name for n in ref2.s_nodes(orig)]
        try:
            after = apply_seq(data['recipe'], data['seq'])
        except Exception as e:
            return True, f'transformation {"+".join(data["seq"])} raised {type(e).__name__}: {e}'
        assign = {i: in_bytes.get((i, 0, 0), 0) for i in range(len(names))}
        expected = ref2.Ref2(orig, assign, 0, 255).captured()
    else:
        try:
            cells, before, after = build_subst(data['lib'], data['kind'], data['in_mask'], data['out_mask'], data['variant'], data['post'])
        except Exception as e:
            return True, f'{data["lib"]}.{data["kind"]} inputs connected {data["in_mask"]} outputs {data["out_mask"]}: resolve raised {type(e).__name__}: {e!r}'
        names = [n.name for n in ref2.s_nodes(before)]
        assign = {i: in_bytes.get((i, 0, 0), 0) for i in range(len(names))}
        try:
            expected = HierRef(before, assign, 0, 255, cells).captured()
        except KeyError:
            na = [n.name for n in after.s_nodes]
            return na != names, f'{data["lib"]}.{data["kind"]}: state elements appear only after resolution: s_nodes {names} -> {na}'
    na = [n.name if (n.circuit is after and n.index < len(after.nodes) and after.nodes[n.index] is n) else f'<{n.name}: not in circuit>' for n in after.s_nodes]
    if na != names: return True, f'ports/state elements changed: {names} -> {na}'
    s = LogicSim(after, 3, m=2)
    for (i, p, b), v in in_bytes.items(): s.s[0, i, p, b] = v
    s.s_to_c(); s.c_prop(); s.c_to_s()
    bad = [(names[i], int(s.s[1, i, 0, 0]) & 7, v & 7) for i, v in expected.items() if (int(s.s[1, i, 0, 0]) ^ v) & 7]
    return bool(bad), f'(node, after, before)={bad[:2]}'


def jobs(tier, seed):
    J = []
    nls = netlist.g2_shapes() + netlist.g3_random(seed, 20 if tier == 'quick' else 500)
    seqs = [s for n in (1, 2) for s in itertools.product(TRANSFORMS, repeat=n)]
    if tier == 'thorough': seqs += list(itertools.product(TRANSFORMS, repeat=3))
    for j, nl in enumerate(nls):
        for style in (('verilog', 'bench', 'lean', 'vbf', 'bench2') if tier == 'thorough' else (('verilog', 'bench2', 'bench', 'lean', 'vbf')[j % 5],) if j >= len(netlist.g2_shapes()) else ('verilog', 'bench2', 'lean')):
            for seq in seqs: J.append(('seq', (('nl', nl.to_json(), style), seq)))
    for r in netlist.G4:
        for seq in (('copy',), ('pickle',), ('elim',), ('elim', 'copy', 'pickle')): J.append(('seq', (r, seq)))
    # one signal on all four pins of 70 gates: a fork with 280 branches in a circuit of fewer than 256 nodes (pin numbers exceed node numbers)
    wide = netlist.NL('wide280', [('a', 'in'), ('b', 'in')] + [(f'o{k}', 'out') for k in range(70)], [(f'g{k}', 'AND4' if k % 2 else 'OR4', [f'o{k}'], ['a', 'a', 'b' if k == 69 else 'a', 'a']) for k in range(70)])
    for seq in (('copy',), ('pickle',), ('pickle', 'copy')): J.append(('seq', (('nl', wide.to_json(), 'bench'), seq)))
    for libname in LIBS + ['CUSTOM']:
        cells = lib_cells(libname)
        seen = set()
        for kind, impl in cells.items():
            if id(impl) in seen and tier == 'quick': continue
            seen.add(id(impl))
            n_in = len([p for p in impl.io_nodes if len(p.ins) == 0]); n_out = len([p for p in impl.io_nodes if len(p.ins) > 0])
            full_i, full_o = (True,) * n_in, (True,) * n_out
            masks = [(full_i, full_o)]
            masks += [(tuple(k != j for k in range(n_in)), full_o) for j in range(n_in)]
            masks += [(full_i, tuple(k != j for k in range(n_out))) for j in range(n_out)]
            if libname == 'CUSTOM' or tier == 'thorough':
                masks = [(im, om) for im in itertools.product([True, False], repeat=n_in) for om in itertools.product([True, False], repeat=n_out)] if n_in + n_out <= 6 else masks
            for im, om in dict.fromkeys(masks):
                J.append(('subst', (libname, kind, im, om, 0, ())))
            J.append(('subst', (libname, kind, full_i, full_o, 1, ())))
            J.append(('subst', (libname, kind, full_i, full_o, 1, ('elim', 'copy', 'pickle'))))
            if n_in >= 1:
                J.append(('subst', (libname, kind, full_i, (False,) * n_out, 2, ('copy', 'pickle'))))
                J.append(('subst', (libname, kind, full_i, full_o, 2, ())))
    return J


def dispatch(job):
    return {'seq': seq_item, 'subst': subst_item}[job[0]](job[1])


def run(tier, seed):
    J = jobs(tier, seed)
    rep = common.pmap(dispatch, J, chunksize=8)
    # reachability twin: a wrong expectation must be refuted by the same comparison
    nl = netlist.NL('twin', [('a', 'in'), ('b', 'in'), ('z', 'out')], [('g', 'AND2', ['z'], ['a', 'b'])])
    c = netlist.build(nl, 'verilog')
    a = sym_assign(3)
    tw = common.Report()
    if compare(tw, ['a', 'b', 'z'], {2: a[0] | a[1]}, c, 'twin', {}) is None: rep.error('reachability twin failed')
    cov = {
        'states': int(rep.counts['paths']), 'transitions': int(rep.counts['ops']), 'traces_validated_against_impl': len(rep.violations),
        'obligations': int(rep.counts['obligations']), 'discharged': int(rep.counts['discharged']), 'jobs': len(J),
        'explanation': 'states = transformed circuits executed symbolically through the real LogicSim; each compared by z3 with the before-side oracle for all stimuli; s_nodes name lists compared exactly',
        'functions_encoded': common.fn_sha(Circuit.substitute, Circuit.resolve_tlib_cells, Circuit.eliminate_1to1_forks, Circuit.copy, Circuit.__getstate__, Circuit.__setstate__, Circuit.remove_dangling_nodes),
        'bounds': {'transformation sequences': '<= 2 (quick) / <= 3 (thorough) of copy, pickle, eliminate_1to1_forks', 'library cells': 'every distinct implementation (quick) / every name (thorough) of 5 libraries',
                   'pin subsets': 'all connected; each single input open; each single output open; custom shapes: all subsets'},
        'exhaustive': False,
        'summary': f'{len(J)} jobs, {rep.counts["paths"]} symbolic runs, {rep.counts["obligations"]} obligations, {rep.counts["discharged"]} discharged',
    }
    return LEVEL, rep, cov, ASSUME
