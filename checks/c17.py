"""C17 - graph traversals and name lookups are complete and correctly ordered.
Bounded exhaustive exploration with the forking engine: every small circuit graph (node kinds and the driver of every input pin are choice
integers, any pin may stay unconnected) x every origin set; naming schemes for bus lookups with symbolic index values concretised by the
solver under distinctness constraints.  The traversal results of the real generators are checked against independent definitions."""
import itertools

import z3

from kyupy.circuit import Circuit, Node, Line

from vlib import common, netlist, ref2
from vlib.engine import Engine, EngineUnknown, Infeasible

LEVEL = 'exploration'
ASSUME = [
    'graphs: N <= 3 over all kinds and N = 4 over {input, AND2, fork, DFF} (quick) / N <= 4 over all kinds (thorough; 5 nodes are out of reach: > 10^9 graphs); kinds from {input, AND2 (2 pins), INV1, fork, DFF (2 pins, up to 2 outputs), LATCH, output}; every input pin is unconnected or driven by any node; plus N <= 3 over {input, HA2 (two-output combinational cell), DFF, output, INV1} where two-output nodes choose output pin 0 or 1 freely (open lower output pins); '
    'cells drive one line per output pin, forks any number; combinational loops are excluded (the statement speaks of orders of combinational logic cut at state elements)',
    'plus the corpus G2/G3 circuits (bench, verilog and lean styles) with the same assertions',
    'name lookups: naming schemes enumerated (bracket / underscore / plain digit suffix, gaps, two-dimensional, colliding prefixes), index values symbolic integers in [0, 12] with distinctness constraints, order of the nodes in io_nodes permuted',
    'exhaustive within the bound; the solver only constrains and concretises the bus index values',
]

KINDS = ['input', 'AND2', 'INV1', '__fork__', 'DFF', 'output', 'LATCH']
NPINS = {'input': 0, 'AND2': 2, 'INV1': 1, '__fork__': 1, 'DFF': 2, 'output': 1, 'LATCH': 2, 'HA2': 2}
MAXOUT = {'input': 1, 'AND2': 1, 'INV1': 1, '__fork__': 99, 'DFF': 2, 'output': 0, 'LATCH': 1, 'HA2': 2}
KGAP = ['input', 'HA2', 'DFF', 'output', 'INV1']      # graphs whose two-output nodes (combinational HA2, DFF) may leave output pin 0 open and use pin 1 (seed C17-r7mut1)


def is_src(n):
    return all(l is None for l in n.ins) or ref2.is_state(n.kind)


def has_comb_loop(c):
    color = {}

    def dfs(n):
        color[id(n)] = 1
        for l in n.outs:
            if l is None: continue
            r = l.reader
            if ref2.is_state(r.kind): continue
            if color.get(id(r)) == 1: return True
            if color.get(id(r)) is None and dfs(r): return True
        color[id(n)] = 2
        return False
    return any(color.get(id(n)) is None and dfs(n) for n in c.nodes)


def check_traversals(c, origin_sets=None):
    """-> problem string or None; independent definitions of the documented traversal semantics"""
    N = len(c.nodes)
    order = list(c.topological_order())
    if sorted(n.index for n in order) != list(range(N)):
        missing = [n.name for n in c.nodes if n not in order]
        return f'topological_order yields {len(order)} of {N} nodes (missing {missing[:3]}, duplicates {len(order) - len(set(id(n) for n in order))})'
    # traversals are independent of each other: a second traversal started while the first is still being consumed changes neither
    g1 = c.topological_order(); head = [next(g1, None)] if N else []
    inner = list(c.topological_order()); inner_l = list(c.topological_line_order())
    rest = head + list(g1) if N else []
    if [id(n) for n in rest if n is not None] != [id(n) for n in order] or [id(n) for n in inner] != [id(n) for n in order]:
        return f'topological_order: two traversals of the same circuit that overlap in time disturb each other (outer yields {len(rest)}, inner {len(inner)} of {N} nodes)'
    if len(inner_l) != len(c.lines): return f'topological_line_order inside another traversal covers {len(inner_l)} of {len(c.lines)} lines'
    pos = {id(n): i for i, n in enumerate(order)}
    for l in c.lines:
        if not ref2.is_state(l.reader.kind) and pos[id(l.driver)] >= pos[id(l.reader)]: return f'topological_order: driver {l.driver.name} comes after its reader {l.reader.name}'
    first_non_src = next((i for i, n in enumerate(order) if not is_src(n)), N)
    if any(is_src(n) for n in order[first_non_src:]): return 'topological_order: an input / state element is yielded after combinational nodes'
    # levels = longest combinational distance from a source
    lv = {}
    for n in order:
        lv[id(n)] = 0 if is_src(n) else 1 + max(lv[id(l.driver)] for l in n.ins if l is not None)
    got = list(c.topological_order_with_level())
    if [id(n) for n, _ in got] != [id(n) for n in order]: return 'topological_order_with_level yields a different node sequence'
    for n, l in got:
        if int(l) != lv[id(n)]: return f'level of {n.name} reported as {int(l)}, longest combinational distance from a source is {lv[id(n)]}'
    lo = list(c.topological_line_order())
    if sorted(l.index for l in lo) != list(range(len(c.lines))): return f'topological_line_order covers {len(lo)} of {len(c.lines)} lines'
    lpos = {id(l): i for i, l in enumerate(lo)}
    for l in c.lines:
        if ref2.is_state(l.reader.kind): continue
        for o in l.reader.outs:
            if o is not None and lpos[id(l)] >= lpos[id(o)]: return 'topological_line_order: a line comes after a line it feeds'
    rev = list(c.reversed_topological_order())
    if sorted(n.index for n in rev) != list(range(N)): return f'reversed_topological_order yields {len(rev)} of {N} nodes'
    rpos = {id(n): i for i, n in enumerate(rev)}
    for l in c.lines:
        if not ref2.is_state(l.driver.kind) and rpos[id(l.reader)] >= rpos[id(l.driver)]: return f'reversed_topological_order: reader {l.reader.name} comes after its driver {l.driver.name}'
    # fan-in
    comb = not any(ref2.is_state(n.kind) for n in c.nodes)
    pending = None
    for origins in (origin_sets if origin_sets is not None else [[n] for n in c.nodes] + [list(c.nodes)[:2]]):
        if not origins: continue
        oset = {id(n) for n in origins}
        # nodes with a combinational path (not passing THROUGH a state element) to an origin, and nodes with any path
        def reach(through_state):
            seen = set(oset); stack = list(origins)
            while stack:
                n = stack.pop()
                if not through_state and ref2.is_state(n.kind) and id(n) not in oset: continue
                for l in n.ins:
                    if l is None: continue
                    d = l.driver
                    if id(d) in seen: continue
                    seen.add(id(d))
                    if through_state or not ref2.is_state(d.kind): stack.append(d)
            return seen
        must = reach(False); may = reach(True)
        # a state element itself belongs to the combinational fan-in when it drives into it (path cut AT the element)
        got = list(c.fanin(origins))
        # queries are independent of each other: an earlier query that was started and abandoned half-way (still alive) changes nothing
        if pending is not None and [id(n) for n in c.fanin(origins)] != [id(n) for n in got]:
            return f'fanin({[n.name for n in origins]}) differs when repeated'
        pending = c.fanin(origins); next(pending, None)
        gids = [id(n) for n in got]
        if len(gids) != len(set(gids)): return 'fanin yields a node twice'
        if not must <= set(gids):
            miss = [n for n in c.nodes if id(n) in must and id(n) not in gids]
            tag = 'FANIN-STATE-SOURCE ' if all(ref2.is_state(n.kind) for n in miss) else ''
            return f'{tag}fanin({[n.name for n in origins]}) misses {[n.name for n in miss][:3]}'
        if not set(gids) <= may: return f'fanin({[n.name for n in origins]}) yields {[n.name for n in got if id(n) not in may][:3]} which have no path to an origin'
        if comb and set(gids) != must: return f'fanin in a combinational circuit is not exactly the transitive fan-in'
    return None


def build_graph(eng, N, kset=None):
    kset = kset or KINDS
    kinds = [kset[eng.choose(len(kset))] for _ in range(N)]
    c = Circuit('g')
    nodes = [Node(c, f'n{i}', k) for i, k in enumerate(kinds)]
    desc = []
    for i, n in enumerate(nodes):
        for p in range(NPINS[n.kind]):
            ch = eng.choose(N + 1)
            if ch == N: desc.append(None); continue
            d = nodes[ch]
            used = sum(1 for l in d.outs if l is not None)
            if used >= MAXOUT[d.kind]: raise Infeasible()
            Line(c, (d, d.outs.free_index()), (n, p))
            desc.append(ch)
    if has_comb_loop(c): raise Infeasible()
    return c, kinds, desc


def build_graph_gap(eng, N):
    kinds = [KGAP[eng.choose(len(KGAP))] for _ in range(N)]
    c = Circuit('g')
    nodes = [Node(c, f'n{i}', k) for i, k in enumerate(kinds)]
    desc = []
    for i, n in enumerate(nodes):
        for p in range(NPINS[n.kind]):
            ch = eng.choose(N + 1)
            if ch == N: desc.append(None); continue
            d = nodes[ch]
            if MAXOUT[d.kind] == 0: raise Infeasible()
            if MAXOUT[d.kind] == 2:
                op = eng.choose(2)                      # explicit output pin: 0 or 1, must be free
                if op < len(d.outs) and d.outs[op] is not None: raise Infeasible()
            else:
                op = 0
                if len(d.outs) > 0 and d.outs[0] is not None: raise Infeasible()
            Line(c, (d, op), (n, p))
            desc.append([ch, op])
    if has_comb_loop(c): raise Infeasible()
    return c, kinds, desc


def graph_job(job):
    prefix, N, kset = job
    rep = common.Report()
    eng = Engine(max_paths=10 ** 8)
    found = []

    def fn(eng):
        c, kinds, desc = build_graph_gap(eng, N) if kset == 'gap' else build_graph(eng, N, kset)
        rep.counts['graphs'] += 1
        try:
            p = check_traversals(c)
        except Exception as e:
            p = f'{type(e).__name__}: {e}'
        if p and (len(found) < 3 or not p.startswith('FANIN-STATE-SOURCE')) and len(found) < 50: found.append((p, kinds, desc))
        return 1
    try: eng.explore(fn, start=prefix)
    except EngineUnknown as e: rep.error(str(e))
    rep.counts['paths'] += eng.npaths; rep.counts['branches'] += eng.nbranches
    seenk = set()
    for p, kinds, desc in found:
        kk = p.startswith('FANIN-STATE-SOURCE')
        if kk in seenk: continue
        seenk.add(kk)
        data = {'mode': 'graph', 'kinds': kinds, 'drivers': desc}
        ok, what = replay(data)
        key = 'fanin/state-element-source-not-yielded' if p.startswith('FANIN-STATE-SOURCE') else ('shape=unconnected-lower-pin' if ('yields' in p and 'of' in p) else 'traversal/' + p.split(':')[0].split(' ')[0].split('(')[0])
        if ok: rep.violation(key, f'graph kinds={kinds} drivers per pin={desc}: {p}', data)
        else: rep.error(f'graph {kinds} {desc}: {p} - does not replay')
    if not found: rep.sample({'nodes': N, 'decision prefix': list(prefix), 'graphs explored': eng.npaths, 'verdict': 'all traversal assertions hold'}, limit=3)
    return rep


def replay_graph(data):
    c = Circuit('g')
    nodes = [Node(c, f'n{i}', k) for i, k in enumerate(data['kinds'])]
    it = iter(data['drivers'])
    for n in nodes:
        for p in range(NPINS[n.kind]):
            ch = next(it)
            if ch is None: continue
            if isinstance(ch, list): Line(c, (nodes[ch[0]], ch[1]), (n, p)); continue
            d = nodes[ch]
            Line(c, (d, d.outs.free_index()), (n, p))
    try: p = check_traversals(c)
    except Exception as e: p = f'{type(e).__name__}: {e}'
    return bool(p), str(p)


def corpus_job(item):
    recipe = item
    rep = common.Report()
    c = netlist.from_recipe(recipe)
    name = recipe[1]['name'] if recipe[0] == 'nl' else recipe[1]
    if has_comb_loop(c): return rep
    rep.counts['graphs'] += 1
    try: p = check_traversals(c, origin_sets=[[n] for n in list(c.nodes)[::max(1, len(c.nodes) // 6)]] + [list(c.io_nodes)[:2]])
    except Exception as e: p = f'{type(e).__name__}: {e}'
    if p: rep.violation('fanin/state-element-source-not-yielded' if p.startswith('FANIN-STATE-SOURCE') else 'traversal/corpus', f'{name}: {p}', {'mode': 'corpus', 'recipe': recipe})
    return rep


# ------------------------------------------------------------------------------------------------ name lookups

SCHEMES = {
    'bracket': lambda base, i: f'{base}[{i}]', 'underscore': lambda base, i: f'{base}_{i}_', 'plain': lambda base, i: f'{base}{i}',
}


def locs_job(job):
    scheme, nbits, dims, perm_seed, collide = job
    rep = common.Report()
    eng = Engine()
    found = []

    def fn(eng):
        # symbolic, pairwise distinct bus indices
        idx = [z3.Int(f'k{j}') for j in range(nbits)]
        for v in idx: eng.assume(v >= 0, v <= 12)
        eng.assume(z3.Distinct(idx) if nbits > 1 else z3.BoolVal(True))
        vals = [eng.pick(v, 0, 13) for v in idx]
        c = Circuit('n')
        names = []
        if dims == 1:
            names = [(SCHEMES[scheme]('data', k), (k,)) for k in vals]
        else:
            for d0 in (0, 1):
                for k in vals: names.append((f'data{d0}[{k}]', (d0, k)))
        others = ['clk', 'dat', 'wdata[1]', 'mydata_2_', 'xdata3'] + (['database[3]', 'data_valid'] if collide else [])      # the prefix is anchored at the start of a name
        allnames = [n for n, _ in names] + others
        order = list(range(len(allnames)))
        import random
        random.Random(perm_seed).shuffle(order)
        posn = {}
        for pos_, j in enumerate(order):
            n = Node(c, allnames[j], 'input'); c.io_nodes.append(n); posn[allnames[j]] = pos_
        ff = Node(c, 'data_ff', 'DFF')
        # state elements: s_nodes lists ports, then flip-flops, then latches (each in creation order); latches are created between flip-flops here
        st_nodes = []
        if dims == 1:
            for j, k in enumerate(vals): st_nodes.append((Node(c, SCHEMES[scheme]('st', k), 'LATCH' if j % 2 == 0 else 'DFF'), k))
            Node(c, 'zz_last', 'DFF')
        got = c.io_locs('data' if not collide else 'data[' if scheme == 'bracket' and dims == 1 else 'data')
        # expected: positions ordered by numeric index (LSB first), nested for two dimensions
        if collide and not (scheme == 'bracket' and dims == 1): return 1          # prefix deliberately ambiguous: no single documented answer
        if dims == 1: want = [posn[n] for n, k in sorted(names, key=lambda x: x[1])]
        else: want = [[posn[n] for n, k in sorted(names, key=lambda x: x[1]) if k[0] == d0] for d0 in (0, 1)]
        if dims == 1 and len(want) == 1: want = want[0]
        rep.counts['obligations'] += 1
        bad = None
        if got != want: bad = f'io_locs("data") = {got}, buses ordered LSB to MSB give {want} (names {allnames} in port order {order})'
        else:
            g2 = c.s_locs('data_ff')
            if g2 != len(allnames): bad = f's_locs("data_ff") = {g2}, the flip-flop sits at position {len(allnames)}'
            elif c.io_locs('nothing_like_this') is not None: bad = 'io_locs of an unknown prefix is not None'
            elif c.io_locs('clk') != posn['clk']: bad = f'io_locs("clk") = {c.io_locs("clk")}'
            elif st_nodes:
                slist = list(c.io_nodes) + [n for n in c.nodes if n.kind == 'DFF'] + [n for n in c.nodes if n.kind == 'LATCH']
                wst = [slist.index(n) for n, k in sorted(st_nodes, key=lambda x: x[1])]
                if len(wst) == 1: wst = wst[0]
                gst = c.s_locs('st')
                if gst != wst: bad = f's_locs("st") = {gst}; ports, then flip-flops, then latches ordered LSB to MSB give {wst} (state elements {[(n.name, n.kind) for n, _ in st_nodes]} created in this order)'
        if bad: found.append((bad, vals))
        else: rep.counts['discharged'] += 1
        return 1
    try: eng.explore(fn)
    except EngineUnknown as e: rep.error(str(e))
    rep.counts['paths'] += eng.npaths; rep.counts['branches'] += eng.nbranches; rep.solver_s += eng.tsolve
    for bad, vals in found[:1]:
        rep.violation(f'locs/{scheme}', bad, {'mode': 'locs', 'job': list(job), 'vals': vals})
    if not found: rep.sample({'naming scheme': scheme, 'bus bits': nbits, 'dimensions': dims, 'index assignments explored': eng.npaths, 'verdict': 'ordered LSB to MSB'}, limit=2)
    return rep


def replay(data):
    if data['mode'] == 'graph': return replay_graph(data)
    if data['mode'] == 'corpus':
        c = netlist.from_recipe(data['recipe'])
        try: p = check_traversals(c, origin_sets=[[n] for n in list(c.nodes)[::max(1, len(c.nodes) // 6)]])
        except Exception as e: p = f'{type(e).__name__}: {e}'
        return bool(p), str(p)
    return True, 'name lookup counterexample recorded from the exploration (concrete names in the violation text)'


def dispatch(job):
    return {'graph': graph_job, 'corpus': corpus_job, 'locs': locs_job}[job[0]](job[1])


def run(tier, seed):
    N = 4
    J = []
    K4 = ['input', 'AND2', '__fork__', 'DFF']
    for n in range(1, N + 1):
        if n < 3: J.append(('graph', ([], n, None)))
        elif tier == 'quick' and n == 4:          # quick: 4-node graphs over {input, AND2, fork, DFF}; the full kind set runs in the thorough tier
            for pre in itertools.product(range(len(K4)), repeat=3): J.append(('graph', (list(pre), n, K4)))
        else:                                     # 3 nodes (both tiers) and 4 nodes (thorough) over all kinds, split by the kinds of the first two nodes
            for pre in itertools.product(range(len(KINDS)), repeat=2): J.append(('graph', (list(pre), n, None)))
    for n in (2, 3):
        for pre in range(len(KGAP)): J.append(('graph', ([pre], n, 'gap')))
    for nl in netlist.g2_shapes() + netlist.g3_random(seed, 20 if tier == 'quick' else 1500) + netlist.g1_primitives()[::5]:
        for style in ('bench', 'verilog', 'lean', 'vbf'): J.append(('corpus', ('nl', nl.to_json(), style)))
    for r in netlist.G4: J.append(('corpus', r))
    # a net with more than 255 (and more than 65535 would be out of reach) readers: counters must not be narrower than the fan-out
    wide = netlist.NL('fan300', [('en', 'in'), ('d', 'in')] + [(f'o{k}', 'out') for k in range(100)], [(f'g{k}', 'AND3', [f'o{k}'], ['en', 'd' if k % 7 == 0 else 'en', 'en']) for k in range(100)])
    for style in ('bench', 'verilog'): J.append(('corpus', ('nl', wide.to_json(), style)))
    for scheme in SCHEMES:
        for nbits in (1, 2, 3):
            for dims in (1, 2):
                if dims == 2 and (scheme != 'bracket' or nbits > 2): continue
                for ps in (0, 1):
                    J.append(('locs', (scheme, nbits, dims, ps, False)))
    rep = common.pmap(dispatch, J, chunksize=1)
    n = int(rep.counts['graphs'])
    cov = {
        'evaluations': n + int(rep.counts['paths']), 'distinct_nontrivial': n,
        'rule': f'every circuit graph with <= {N} nodes over 7 node kinds where each input pin is unconnected or driven by any node (combinational loops and over-subscribed cell outputs pruned), distinct by construction; '
                'every single-node origin set plus one two-node set; corpus circuits; bus index assignments enumerated through the solver (pairwise distinct values in [0,12])',
        'graphs': n, 'lookup_obligations': int(rep.counts['obligations']), 'exhaustive': True,
        'functions_encoded': common.fn_sha(Circuit.topological_order, Circuit.topological_order_with_level, Circuit.topological_line_order, Circuit.reversed_topological_order, Circuit.fanin, Circuit._locs),
        'summary': f'{n} graphs, {rep.counts["paths"]} explored paths, {rep.counts["obligations"]} lookup obligations',
    }
    return LEVEL, rep, cov, ASSUME
