"""C09 - circuit graph stays consistent under every edit history.
Bounded exhaustive exploration of edit histories from the empty circuit with the forking engine: operation kinds and operands are
choice integers (every value explored), explicit pin numbers are symbolic integers constrained by the well-formedness precondition
(free position) and concretised by the solver.  After every step the statement's invariant is asserted on the real objects.
Pure structure cannot stay symbolic in Python object-graph code: this is what symbolic execution degenerates to (DESIGN.md par. 7)."""
import pickle

import z3

from kyupy import bench
from kyupy.circuit import Circuit, Node, Line

from vlib import common
from vlib.engine import Engine, EngineUnknown, Infeasible

LEVEL = 'exploration'
ASSUME = [
    'histories of length <= H from the empty circuit, at most 4 nodes alive (or: first step = one of 3 small netlists built through the bench front end, then H-1 edits, at most 9 nodes); operations: add cell, add fork, add line (implicit pins), add line (explicit free pins, pin numbers < 3), remove line, '
    'remove unconnected node, eliminate_1to1_forks, substitute (4 implementations incl. one that ignores an input), copy, pickle round trip',
    'well-formed use as in the statement: explicit pins only on free positions; explicit output pins of forks only at the first free position (fork outputs are gap-free by contract); nodes removed only when unconnected; a fork has a single driver at pin 0; '
    'substitute only on non-port cells whose connected pins fit the implementation and at most once per instance name (derived node names must stay unique - documented precondition)',
    'exhaustive within the bound; the solver only decides the feasibility of explicit pin choices',
]

IMPLS = ['input(A,B) output(Y) Y=AND2(A,B)', 'input(A) output(Y,Z) Y=INV1(A) Z=BUF1(Y)', 'input(A,B) output(Y) T=OR2(A,B) Y=XOR2(T,A)',
         'input(A,B,C) output(Y) X=INV1(C) Y=AND2(X,A)']       # ignores input B while pin 1 of the designated cell is in use
KINDS = ['AND2', 'DFF', 'input']
SEEDS = ['input(a) output(x,y,z) x=not(a) y=buf(a) z=and(a,a)', 'input(a,b) output(z) z=and(a,b)', 'input(a) output(z,y) x=not(a) z=buf(x) y=or(x,a)', 'input(a) output(q) q=dff(d) d=xor(q,a)']


def impl(k):
    if IMPLS[k] == 'VSTYLE': return impl_vstyle()
    c = bench.parse(IMPLS[k]); c.eliminate_1to1_forks()
    return c


def impl_vstyle():
    """implementation as a Verilog parser builds it: 'input'/'output' port cells; the fork of signal t feeds output port Y on branch 0 and an inverter on branch 1"""
    c = Circuit('vstyle')
    a = Node(c, 'A', 'input'); y = Node(c, 'Y', 'output'); z = Node(c, 'Z', 'output'); c.io_nodes += [a, y, z]
    fa = Node(c, 'A'); Line(c, a, fa)
    g = Node(c, 'g', 'BUF1'); Line(c, fa, g)
    ft = Node(c, 't'); Line(c, g, ft)
    Line(c, ft, y)
    h = Node(c, 'h', 'INV1'); Line(c, ft, h)
    fz = Node(c, 'zz'); Line(c, h, fz); Line(c, fz, z)
    return c


def invariant(c):
    """-> problem string or None"""
    for i, n in enumerate(c.nodes):
        if n.index != i: return f'node {n.name} has index {n.index} at list position {i}'
        if n.circuit is not c: return f'node {n.name} does not point to its circuit'
        d = c.forks if n.kind == '__fork__' else c.cells
        if d.get(n.name) is not n: return f'{"fork" if n.kind == "__fork__" else "cell"} lookup of name {n.name} does not resolve to the node'
    if len(c.forks) + len(c.cells) != len(c.nodes): return f'name dictionaries hold {len(c.forks) + len(c.cells)} entries for {len(c.nodes)} nodes'
    for i, l in enumerate(c.lines):
        if l.index != i: return f'line has index {l.index} at list position {i}'
        if l.driver is None or l.reader is None: return f'line {i} lost its driver/reader'
        if l.driver.circuit is not c or l.reader.circuit is not c: return f'line {i} is connected to a node outside the circuit'
        if not (l.driver_pin < len(l.driver.outs) and l.driver.outs[l.driver_pin] is l): return f'line {i} is not referenced from output pin {l.driver_pin} of its driver {l.driver.name}'
        if not (l.reader_pin < len(l.reader.ins) and l.reader.ins[l.reader_pin] is l): return f'line {i} is not referenced from input pin {l.reader_pin} of its reader {l.reader.name}'
    lines = {id(l) for l in c.lines}
    refs = {}
    for n in c.nodes:
        for p, l in enumerate(n.outs):
            if l is None: continue
            if id(l) not in lines: return f'output pin {p} of {n.name} references a line that is not in the circuit'
            if l.driver is not n or l.driver_pin != p: return f'output pin {p} of {n.name} references line {l.index} which records driver {l.driver.name}/{l.driver_pin}'
            refs[id(l)] = refs.get(id(l), 0) + 1
        for p, l in enumerate(n.ins):
            if l is None: continue
            if id(l) not in lines: return f'input pin {p} of {n.name} references a line that is not in the circuit'
            if l.reader is not n or l.reader_pin != p: return f'input pin {p} of {n.name} references line {l.index} which records reader {l.reader.name}/{l.reader_pin}'
            refs[id(l)] = refs.get(id(l), 0) + 1
        if n.kind == '__fork__' and any(l is None for l in n.outs): return f'fork {n.name} has a gap in its outputs'
    for l in c.lines:
        if refs.get(id(l), 0) != 2: return f'line {l.index} is referenced from {refs.get(id(l), 0)} pins (expected exactly 2)'
    for n in c.io_nodes:
        if n is not None and (n.circuit is not c or c.nodes[n.index] is not n): return f'port list holds node {n.name} which is not in the circuit'
    st = c.stats
    if st.get('__node__') != len(c.nodes) or st.get('__cell__') != len(c.cells) or st.get('__fork__') != len(c.forks) or st.get('__line__') != len(c.lines) or st.get('__io__') != len(c.io_nodes):
        return f'stats {st} do not match the containers'
    for k in set(n.kind for n in c.cells.values()):
        if st.get(k) != sum(1 for n in c.cells.values() if n.kind == k): return f'stats count for kind {k} wrong'
    return None


def apply_op(eng, c, step, trace):
    """one edit operation chosen by the engine; returns the (possibly new) circuit"""
    nodes = list(c.nodes)
    ops = ['cell', 'fork']
    if step == 0: ops.append('load')          # macro history: a small netlist built through the same public API by the bench front end
    loaded = bool(trace) and trace[0][0] == 'load'
    if loaded: ops = []                        # after a loaded netlist only removing / rewiring transformations (keeps the branching bounded)
    if nodes and not loaded: ops += ['line', 'xline']
    if c.lines: ops.append('rmline')
    if any(all(l is None for l in n.ins) and all(l is None for l in n.outs) for n in nodes): ops.append('rmnode')
    if c.forks: ops.append('elim')
    if c.cells: ops.append('subst')
    if nodes: ops += ['copy', 'pickle']
    op = ops[eng.choose(len(ops))]
    if op in ('cell', 'fork') and len(nodes) >= (4 if not (trace and trace[0][0] == 'load') else 9): raise Infeasible()
    if op == 'load':
        k = eng.choose(len(SEEDS))
        c = bench.parse(SEEDS[k]); trace.append(('load', SEEDS[k]))
        return c
    if op == 'cell':
        k = KINDS[eng.choose(len(KINDS))]
        Node(c, f'c{step}', k); trace.append(('add cell', f'c{step}', k))
        if k == 'input' and eng.choose(2): c.io_nodes.append(c.cells[f'c{step}']); trace.append(('port', f'c{step}'))
    elif op == 'fork':
        Node(c, f'f{step}'); trace.append(('add fork', f'f{step}'))
    elif op == 'line':
        d = nodes[eng.choose(len(nodes))]; r = nodes[eng.choose(len(nodes))]
        if r.kind == '__fork__' and any(l is not None for l in r.ins): raise Infeasible()      # a fork has one driver (structural contract of forks)
        Line(c, d, r); trace.append(('add line', nn(d), nn(r)))
    elif op == 'xline':
        d = nodes[eng.choose(len(nodes))]; r = nodes[eng.choose(len(nodes))]
        dp, rp = z3.Int(f'dp{step}'), z3.Int(f'rp{step}')
        eng.assume(dp >= 0, dp < 3, rp >= 0, rp < 3)
        for p, l in enumerate(d.outs):
            if l is not None: eng.assume(dp != p)              # precondition: explicit pins only on free positions
        for p, l in enumerate(r.ins):
            if l is not None: eng.assume(rp != p)
        if d.kind == '__fork__': eng.assume(dp == d.outs.free_index())
        if r.kind == '__fork__':
            if any(l is not None for l in r.ins): raise Infeasible()      # a fork has one driver ...
            eng.assume(rp == 0)                                                 # ... at pin 0
        dpv = eng.pick(dp, 0, 3); rpv = eng.pick(rp, 0, 3)
        Line(c, (d, dpv), (r, rpv)); trace.append(('add line', (nn(d), dpv), (nn(r), rpv)))
    elif op == 'rmline':
        l = c.lines[eng.choose(len(c.lines))]
        trace.append(('remove line', l.index)); l.remove()
        if loaded and eng.choose(2):          # removing a line that is already removed is a no-op (clean-up lists may hold a line twice)
            trace.append(('remove the same line again',)); l.remove()
    elif op == 'rmnode':
        cand = [n for n in nodes if all(l is None for l in n.ins) and all(l is None for l in n.outs)]
        n = cand[eng.choose(len(cand))]
        trace.append(('remove node', nn(n)))
        if any(n is x for x in c.io_nodes): c.io_nodes.remove(n)
        n.remove()
    elif op == 'elim':
        trace.append(('eliminate_1to1_forks',)); c.eliminate_1to1_forks()
    elif op == 'subst':
        cells = [n for n in c.cells.values()]
        n = cells[eng.choose(len(cells))]
        k = eng.choose(len(IMPLS))
        im = impl(k)
        n_in = len([x for x in im.io_nodes if len(x.ins) == 0]); n_out = len([x for x in im.io_nodes if len(x.ins) > 0])
        if len(n.ins) > n_in or len(n.outs) > n_out or any(n is x for x in c.io_nodes): raise Infeasible()     # arrangement of pins must match (documented precondition)
        if any(t[0] == 'substitute' and t[1] == n.name for t in trace): raise Infeasible()    # derived names <inst>~<internal> must stay unique: one substitution per instance
        trace.append(('substitute', n.name, IMPLS[k])); c.substitute(n, im)
    elif op == 'copy':
        trace.append(('copy',)); c = c.copy()
    else:
        trace.append(('pickle',)); c = pickle.loads(pickle.dumps(c))
    return c


def run_history(eng, H, trace, record):
    c = Circuit('h')
    for step in range(H):
        c = apply_op(eng, c, step, trace)
        record['steps'] += 1
        p = invariant(c)
        if p: return p
    return None


def prefixes(H0):
    """decision logs of all histories of length H0 (used to split the work)"""
    eng = Engine()
    logs = []

    def fn(eng):
        run_history(eng, H0, [], {'steps': 0})
        logs.append(list(eng.log))
        return 1
    eng.explore(fn)
    return logs


def explore(prefix, H):
    """explore all histories of length H whose decisions start with `prefix`"""
    rep = common.Report()
    eng = Engine(max_paths=10 ** 8)
    record = {'steps': 0}
    found = []

    def fn(eng):
        trace = []
        try:
            p = run_history(eng, H, trace, record)
        except (Infeasible, EngineUnknown): raise
        except Exception as e:
            p = f'{type(e).__name__}: {e}'
        if p: found.append((p, list(trace)))
        return 1
    try: eng.explore(fn, start=prefix)
    except EngineUnknown as e: rep.error(f'history exploration: {e}')
    rep.counts['paths'] += eng.npaths; rep.counts['branches'] += eng.nbranches; rep.counts['steps'] += record['steps']; rep.solver_s += eng.tsolve
    seen = set()
    for p, trace in found:
        key = classify(p, trace)
        if key in seen: continue
        seen.add(key)
        data = {'trace': [list(t) for t in trace]}
        ok, what = replay(data)
        if ok: rep.violation(key, f'after history {trace}: {p}', data)
        else: rep.error(f'history {trace}: {p} - does not replay')
    if not found: rep.sample({'decision prefix': list(prefix), 'history length': H, 'histories explored': eng.npaths, 'verdict': 'invariant holds after every step'}, limit=3)
    return rep


def classify(p, trace):
    last = trace[-1][0] if trace else '?'
    if 'Error' in p.split(':')[0]: return f'history/{last}/exception={p.split(":")[0]}'
    return f'history/{last}/' + p.split(' ')[0]


def resolve_node(c, name):
    kind, nm = name.split(':', 1)
    return c.forks[nm] if kind == 'fork' else c.cells[nm]


def nn(n): return ('fork:' if n.kind == '__fork__' else 'cell:') + n.name


def replay(data):
    """re-run a recorded history on the real code"""
    if data.get('mode') == 'vstyle':
        p = vstyle_case(tuple(data['mask']))
        return bool(p), str(p)
    c = Circuit('h')
    try:
        for t in data['trace']:
            t = tuple(t)
            if t[0] == 'load': c = bench.parse(t[1])
            elif t[0] == 'add cell': Node(c, t[1], t[2])
            elif t[0] == 'port': c.io_nodes.append(c.cells[t[1]])
            elif t[0] == 'add fork': Node(c, t[1])
            elif t[0] == 'add line':
                def res(x):
                    name, pin = (x, None) if isinstance(x, str) else (x[0], x[1])
                    n = resolve_node(c, name)
                    return n if pin is None else (n, pin)
                Line(c, res(t[1]), res(t[2]))
            elif t[0] == 'remove line':
                last_removed = c.lines[t[1]]; last_removed.remove()
            elif t[0] == 'remove the same line again': last_removed.remove()
            elif t[0] == 'remove node':
                n = resolve_node(c, t[1])
                if any(n is x for x in c.io_nodes): c.io_nodes.remove(n)
                n.remove()
            elif t[0] == 'eliminate_1to1_forks': c.eliminate_1to1_forks()
            elif t[0] == 'substitute':
                im = impl(IMPLS.index(t[2]))
                c.substitute(next(n for n in c.nodes if n.name == t[1] and n.kind != '__fork__'), im)
            elif t[0] == 'copy': c = c.copy()
            elif t[0] == 'pickle': c = pickle.loads(pickle.dumps(c))
            p = invariant(c)
            if p: return True, f'after {t}: {p}'
    except Exception as e:
        return True, f'{type(e).__name__}: {e}'
    return False, 'invariant holds'


def vstyle_case(mask):
    """instance u (input from a port, outputs Y/Z connected per mask) substituted by the Verilog-style implementation; -> (circuit or None, problem)"""
    c = Circuit('w'); u = Node(c, 'u', 'XV')
    pi = Node(c, 'i0', 'input'); c.io_nodes.append(pi); f = Node(c, 'i0'); Line(c, pi, f); Line(c, f, (u, 0))
    for k in range(2):
        if not mask[k]: continue
        fo = Node(c, f'o{k}'); Line(c, (u, k), fo); po = Node(c, f'o{k}', 'output'); c.io_nodes.append(po); Line(c, fo, po)
    try:
        c.substitute(u, impl_vstyle())
        p = invariant(c)
        if p is None:
            c.eliminate_1to1_forks(); p = invariant(c)
            c2 = pickle.loads(pickle.dumps(c.copy())); p = p or invariant(c2)
    except Exception as e:
        p = f'{type(e).__name__}: {e}'
    return p


def vstyle_job(rep):
    import itertools
    for mask in itertools.product([True, False], repeat=2):
        rep.counts['steps'] += 1; rep.counts['paths'] += 1
        p = vstyle_case(mask)
        if p:
            # known: the port branch of an internal fork leaves a gap when that output is left open (only with implementations in Verilog style)
            key = 'substitute/verilog-style-implementation/open-output-leaves-fork-gap' if not mask[0] else 'substitute/verilog-style-implementation'
            rep.violation(key, f'substituting an instance (outputs connected: {list(mask)}) by an implementation with port cells and an internal fork that feeds a port on branch 0: {p}', {'mode': 'vstyle', 'mask': list(mask)})


def job(j):
    return explore(j[0], j[1])


def run(tier, seed):
    H = 4 if tier == 'quick' else 5
    try: P = prefixes(2)
    except Exception as e:
        P = [[]]
    rep = common.pmap(job, [(p, H) for p in P], chunksize=1)
    vstyle_job(rep)
    n = int(rep.counts['paths'])
    cov = {
        'evaluations': n, 'distinct_nontrivial': n, 'rule': f'every edit history of length {H} from the empty circuit (<= 4 live nodes) generated by exhaustive forking over operation and operand choices; each history is distinct by construction '
                                                             '(different choice sequence) and non-trivial (>= 1 edit); the invariant is asserted after every step',
        'steps_checked': int(rep.counts['steps']), 'exhaustive': True,
        'functions_encoded': common.fn_sha(Node.__init__, Node.remove, Line.__init__, Line.remove, Circuit.eliminate_1to1_forks, Circuit.substitute, Circuit.copy, Circuit.__getstate__, Circuit.__setstate__, Circuit.remove_dangling_nodes),
        'summary': f'{n} histories of length {H}, {rep.counts["steps"]} steps checked',
    }
    return LEVEL, rep, cov, ASSUME
