"""C12 - multi-valued operators: array form = bit-parallel form = documented algebra; out= honoured.
bp forms: E1 (one path, z3 terms on 8-lane bit-vectors).  mv forms: E2 forking engine on object arrays of symbolic codes,
every path cross-checked concretely on real uint8 arrays (concolic)."""
import itertools

import numpy as np
import z3

from kyupy import logic

from vlib import common, lanes, specmv
from vlib.engine import Engine, BV, bv_term, EngineUnknown

LEVEL = 'model_checking'
ASSUME = [
    'operand values fully symbolic: bp forms 3 planes x 8 lanes per operand; mv forms one 8-bit code per element constrained < 8 (4-valued: < 4)',
    'shapes / operand counts / out= modes enumerated (listed in bounds)',
    'oracle vlib/specmv.py (documented algebra); algebra agreement modulo the unknown class {X,-}; mv-vs-bp cross-form agreement exact on 3-bit codes',
    'np.empty inside logic.mv_* is shimmed to return an object array during symbolic runs; each path is re-run on real uint8 arrays and must agree (model validation)',
]

O1, Z1 = z3.BitVecVal(1, 1), z3.BitVecVal(0, 1)


class NPShim:
    """forwards to numpy; allocation returns object arrays so that symbolic codes can be stored"""
    def __getattr__(self, n): return getattr(np, n)
    def empty(self, shape, dtype=None): return np.empty(shape, dtype=object)


def spec_code(op, codes, m=8):
    """documented result as a 3-bit z3 term for 3-bit code terms"""
    alg = specmv.AlgMV(Z1, O1, m)
    vs = [(z3.Extract(0, 0, c), z3.Extract(1, 1, c), z3.Extract(2, 2, c) if m == 8 else Z1) for c in codes]
    r = {'not': lambda: alg.inv(vs[0]), 'and': lambda: alg.and_(*vs), 'or': lambda: alg.or_(*vs), 'xor': lambda: alg.xor_(*vs), 'buf': lambda: alg.buf(vs[0])}[op]()
    return alg, r


def same_code(alg, r, code3):
    v = (z3.Extract(0, 0, code3), z3.Extract(1, 1, code3), z3.Extract(2, 2, code3) if alg.m == 8 else Z1)
    return alg.same(r, v) == O1


# ------------------------------------------------------------------------------------------------------- bp forms (E1)

def _bp_path(case, rep, eng):
    op, m, k, lead, alias = case[:5]
    fn = getattr(logic, f'bp{m}v_{op}')
    planes = 3 if (m == 8 or len(case) > 5) else 2          # 6th field: 4-valued operator on 3-plane arrays (bparray / LogicSim.s layout), plane 2 arbitrary
    shape = lead + (planes, 2)
    ins = []
    for j in range(k):
        a = np.empty(shape, dtype=object)
        for idx in np.ndindex(shape): a[idx] = lanes.LV(z3.BitVec(f'x{j}_' + '_'.join(map(str, idx)), 8))
        ins.append(a)
    ins0 = [lanes.norm(a) for a in ins]
    out = ins[0] if alias else np.empty(shape, dtype=object)
    if not alias:
        for idx in np.ndindex(shape): out[idx] = lanes.LV(z3.BitVec('junk_' + '_'.join(map(str, idx)), 8))
    ret = fn(out, *ins)
    out = lanes.norm(out)
    alg = specmv.AlgMV(lanes.ZERO, lanes.ONES, m)
    bad = []
    for li in np.ndindex(lead):
        for b in range(2):
            vs = [(a[li + (0, b)], a[li + (1, b)], a[li + (2, b)] if m == 8 else lanes.ZERO) for a in ins0]
            sp = {'not': lambda: alg.inv(vs[0]), 'buf': lambda: alg.buf(vs[0]), 'and': lambda: alg.and_(*vs), 'or': lambda: alg.or_(*vs), 'xor': lambda: alg.xor_(*vs)}[op]()
            o = (out[li + (0, b)], out[li + (1, b)], out[li + (2, b)] if m == 8 else lanes.ZERO)
            bad.append(alg.n(alg.same(o, sp)) != 0)
            # Boolean restriction: operands in {0,1} (f == i, no activity) -> result is the Boolean operator, plain
            plain = z3.And([z3.And(v[0] == v[1], v[2] == 0) for v in vs])
            bf = vs[0][0]
            for v in vs[1:]: bf = {'and': bf & v[0], 'or': bf | v[0], 'xor': bf ^ v[0]}.get(op, bf)
            if op == 'not': bf = ~bf
            bad.append(z3.And(plain, z3.Or(o[0] != bf, o[1] != bf, o[2] != 0)))
    rep.counts['obligations'] += len(bad)
    q = lanes.Q(rep, eng=eng)
    r = q.check(z3.Or(bad))
    if ret is not out and ret is not None and not alias and not (isinstance(ret, np.ndarray) and ret.shape == out.shape):
        pass
    if r == z3.unsat:
        rep.counts['discharged'] += len(bad)
        rep.counts['paths'] += 1
        rep.sample({'form': f'bp{m}v_{op}', 'operands': k, 'shape': list(shape), 'out_aliases_input': alias, 'verdict': 'unsat'})
    elif r == z3.sat:
        mdl = q.model()
        vals = [[[mdl.eval(a[idx], model_completion=True).as_long() for idx in np.ndindex(shape)]] for a in ins0]
        data = {'form': 'bp', 'op': op, 'm': m, 'k': k, 'shape': list(shape), 'alias': alias, 'vals': [v[0] for v in vals]}
        ok, what = replay(data)
        if ok: rep.violation(f'bp{m}v_{op}/k{k}', what, data)
        else: rep.error(f'bp{m}v_{op} k={k}: counterexample does not replay')
    else:
        rep.error(f'bp{m}v_{op}: solver unknown')
    return


def bp_case(case):
    rep = common.Report()
    lanes.explore(lambda eng: _bp_path(case, rep, eng), rep)
    return rep

def code_spec_py(op, codes, m=8):
    """concrete documented result (set of acceptable 3-bit codes) via the same algebra on 1-bit ints"""
    alg = specmv.AlgMV(0, 1, m)
    vs = [(c & 1, (c >> 1) & 1, (c >> 2) & 1 if m == 8 else 0) for c in codes]
    r = {'not': lambda: alg.inv(vs[0]), 'buf': lambda: alg.buf(vs[0]), 'and': lambda: alg.and_(*vs), 'or': lambda: alg.or_(*vs), 'xor': lambda: alg.xor_(*vs)}[op]()
    r = tuple(x & 1 for x in r)
    if alg.unknown(r) & 1: return {1, 2}
    return {r[0] | (r[1] << 1) | (r[2] << 2)}


def replay(data):
    if data['form'] == 'bigbp':
        r = common.Report(); big_bp(r)
        return bool(r.violations), r.violations[0]['what'] if r.violations else 'ok'
    if data['form'] == 'bp':
        op, m, k, shape = data['op'], data['m'], data['k'], tuple(data['shape'])
        fn = getattr(logic, f'bp{m}v_{op}')
        ins = [np.array(v, dtype=np.uint8).reshape(shape) for v in data['vals']]
        ins0 = [a.copy() for a in ins]
        out = ins[0] if data['alias'] else np.zeros(shape, dtype=np.uint8)
        try:
            fn(out, *ins)
        except Exception as e:
            return True, f'bp{m}v_{op} raised {type(e).__name__}: {e}'
        lead = shape[:-2]
        for li in np.ndindex(lead):
            for b in range(shape[-1]):
                for lane in range(8):
                    np_ = min(shape[-2], 3 if m == 8 else 2)
                    codes = [sum(((int(a[li + (p, b)]) >> lane) & 1) << p for p in range(np_)) for a in ins0]
                    got = sum(((int(out[li + (p, b)]) >> lane) & 1) << p for p in range(np_))
                    exp = code_spec_py(op, codes, m)
                    if got not in exp:
                        return True, f'bp{m}v_{op}{tuple(codes)} = {got}, documented {sorted(exp)} (lane {lane})'
        return False, 'no mismatch'
    return replay_mv(data)


# ------------------------------------------------------------------------------------------------------- mv forms (E2)

MV_PUBLIC = {'not': logic.mv_not, 'and': logic.mv_and, 'or': logic.mv_or, 'xor': logic.mv_xor}
MV_INNER = {'not': logic._mv_not, 'and': logic._mv_and, 'or': logic._mv_or, 'xor': logic._mv_xor}


def run_mv_real(data, arrs):
    """the real function on real uint8 arrays; returns (result array, 'returned array is the out argument')"""
    op, api, outmode = data['op'], data['api'], data['outmode']
    shp = np.broadcast(*arrs).shape
    if api == 'public':
        if outmode in ('given', 'strided'):
            out = np.full(shp, 0, dtype=np.uint8) if data.get('outinit', 0) == 0 else np.full(shp, 5, dtype=np.uint8)
            if outmode == 'strided': out = np.full(shp[:-1] + (2 * shp[-1],), 5, dtype=np.uint8)[..., ::2]          # a non-contiguous view into a larger buffer
            r = MV_PUBLIC[op](*arrs, out=out)
            return out, r is out, r
        r = MV_PUBLIC[op](*arrs)
        return r, True, r
    out = np.full(shp, 6, dtype=np.uint8)
    MV_INNER[op](out, *arrs)
    return out, True, out


def replay_mv(data):
    arrs = [np.array(v, dtype=np.uint8).reshape(s) for v, s in zip(data['vals'], data['shapes'])]
    try:
        out, isout, r = run_mv_real(data, arrs)
    except Exception as e:
        return True, f'mv {data["op"]} ({data["api"]}, out={data["outmode"]}) raised {type(e).__name__}: {e}'
    if not isout: return True, 'result not delivered in the caller-supplied out array'
    bc = np.broadcast_arrays(*arrs)
    for idx in np.ndindex(out.shape):
        codes = [int(a[idx]) for a in bc]
        exp = code_spec_py(data['op'], codes, 8)
        if int(out[idx]) not in exp: return True, f'mv_{data["op"]}{tuple(codes)} = {int(out[idx])}, documented {sorted(exp)}'
        if not np.array_equal(np.asarray(r), out): return True, 'returned array differs from out array'
        # cross-form: bit-parallel operator on the same codes, exact
        bp = [np.array([[c & 1], [(c >> 1) & 1], [(c >> 2) & 1]], dtype=np.uint8) for c in codes]
        o = np.zeros((3, 1), dtype=np.uint8)
        getattr(logic, f'bp8v_{data["op"]}')(o, *bp)
        got_bp = int(o[0, 0] & 1) | (int(o[1, 0] & 1) << 1) | (int(o[2, 0] & 1) << 2)
        if got_bp != int(out[idx]): return True, f'array form mv_{data["op"]}{tuple(codes)} = {int(out[idx])} but bit-parallel form gives {got_bp}'
    return False, 'no mismatch'


def mv_case(case):
    op, api, shapes, outmode = case
    rep = common.Report()
    eng = Engine()
    k = len(shapes)
    bad_data = []
    data0 = {'form': 'mv', 'op': op, 'api': api, 'shapes': [list(s) for s in shapes], 'outmode': outmode}

    def fn(eng):
        arrs, allv = [], []
        for j, shp in enumerate(shapes):
            a = np.empty(shp, dtype=object)
            for idx in np.ndindex(shp):
                v = z3.BitVec(f'v{j}_' + '_'.join(map(str, idx)), 8)
                eng.assume(z3.ULT(v, 8))
                a[idx] = BV(v); allv.append(v)
            arrs.append(a)
        shp = np.broadcast(*arrs).shape
        old = logic.np
        logic.np = NPShim()
        try:
            if api == 'public':
                if outmode in ('given', 'strided'):
                    out = np.empty(shp, dtype=object); out[...] = 0
                    if outmode == 'strided':
                        buf = np.empty(shp[:-1] + (2 * shp[-1],), dtype=object); buf[...] = 5; out = buf[..., ::2]
                    r = MV_PUBLIC[op](*arrs, out=out)
                    delivered = r is out
                else:
                    r = out = MV_PUBLIC[op](*arrs)
                    delivered = True
            else:
                out = np.empty(shp, dtype=object); out[...] = 6
                MV_INNER[op](out, *arrs)
                delivered = True
        finally:
            logic.np = old
        bc = np.broadcast_arrays(*arrs)
        claims = []
        for idx in np.ndindex(shp):
            codes = [z3.Extract(2, 0, bv_term(a[idx])) for a in bc]
            alg, sp = spec_code(op, codes)
            res = bv_term(out[idx])
            claims.append(z3.And(z3.ULT(res, 8), same_code(alg, sp, z3.Extract(2, 0, res))))
            # Boolean restriction
            plain = z3.And([z3.Or(c == 0, c == 3) for c in codes])
            bits = [z3.Extract(0, 0, c) for c in codes]
            bf = bits[0]
            for x in bits[1:]: bf = {'and': bf & x, 'or': bf | x, 'xor': bf ^ x}[op]
            if op == 'not': bf = ~bf
            claims.append(z3.Implies(plain, res == z3.If(bf == 1, z3.BitVecVal(3, 8), z3.BitVecVal(0, 8))))
        rep.counts['obligations'] += len(claims)
        ok = delivered and eng.valid(z3.And(claims))
        # concolic: this path's model on the real function with real uint8 arrays
        mdl = eng.model() if ok else None
        if not ok:
            eng.check(z3.Not(z3.And(claims))) if delivered else eng.check()
            mdl = eng.solver.model()
        vals = [[mdl.eval(bv_term(a[idx]), model_completion=True).as_long() for idx in np.ndindex(a.shape)] for a in arrs]
        data = dict(data0, vals=vals)
        viol, what = replay_mv(data)
        rep.counts['concolic_runs'] += 1
        if ok:
            rep.counts['discharged'] += len(claims)
            if viol: bad_data.append((data, what))          # real dtype behaves differently from the object-array run: still a real failure
            else:
                # cross-check symbolic result under the model against the concrete result
                real_out, _, _ = run_mv_real(data, [np.array(v, dtype=np.uint8).reshape(s) for v, s in zip(vals, shapes)])
                sym = [mdl.eval(bv_term(out[idx]), model_completion=True).as_long() for idx in np.ndindex(shp)]
                if sym != [int(x) for x in real_out.reshape(-1)]:
                    rep.error(f'model mismatch mv_{op}: symbolic {sym} vs real {real_out.tolist()} on {vals}')
        else:
            if viol: bad_data.append((data, what))
            else: rep.error(f'mv_{op} {api}: counterexample {vals} does not replay on the real code')
        return 1

    try:
        eng.explore(fn)
    except EngineUnknown as e:
        rep.error(f'mv_{op}: {e}')
    except Exception as e:
        # the real code raised on symbolic input; confirm concretely
        data = dict(data0, vals=[[3] * int(np.prod(s)) for s in shapes])
        viol, what = replay_mv(data)
        if viol: bad_data.append((data, what))
        else: rep.error(f'mv_{op} {api} {shapes} {outmode}: symbolic run raised {type(e).__name__}: {e}')
    rep.counts['paths'] += eng.npaths
    rep.counts['branches'] += eng.nbranches
    rep.counts['queries_engine'] += eng.nchecks
    rep.solver_s += eng.tsolve
    for data, what in bad_data[:1]:
        key = 'out-argument' if ('raised ValueError' in what or 'out array' in what) and outmode in ('given', 'strided') else f'mv_{op}/{api}'
        rep.violation(key, what, data)
    if not bad_data and eng.complete:
        rep.sample({'form': f'mv_{op}', 'api': api, 'shapes': [list(s) for s in shapes], 'out': outmode, 'paths': eng.npaths, 'verdict': 'all paths valid'})
    return rep


def demorgan_case(case):
    """NOT(AND(a,b)) == OR(NOT a, NOT b) and dual, on all 8x8 values: array forms via E2, bit-parallel via one query."""
    form = case
    rep = common.Report()
    if form == 'bp':
        for m in (4, 8):
            pl = 3 if m == 8 else 2
            a = np.empty((pl, 1), dtype=object); b = np.empty((pl, 1), dtype=object)
            for p in range(pl): a[p, 0] = z3.BitVec(f'a{p}', 8); b[p, 0] = z3.BitVec(f'b{p}', 8)
            f = lambda n: getattr(logic, f'bp{m}v_{n}')
            mk = lambda: np.full((pl, 1), 0, dtype=object)
            alg = specmv.AlgMV(lanes.ZERO, lanes.ONES, m)
            for x, y in (('and', 'or'), ('or', 'and')):
                l = f('not')(mk(), f(x)(mk(), a, b))
                r = f(y)(mk(), f('not')(mk(), a), f('not')(mk(), b))
                l, r = lanes.norm(l), lanes.norm(r)
                tl = (l[0, 0], l[1, 0], l[2, 0] if m == 8 else lanes.ZERO); tr = (r[0, 0], r[1, 0], r[2, 0] if m == 8 else lanes.ZERO)
                q = lanes.Q(rep)
                rep.counts['obligations'] += 1
                res = q.check(alg.n(alg.same(tl, tr)) != 0)
                if res == z3.unsat: rep.counts['discharged'] += 1; rep.counts['paths'] += 1
                elif res == z3.sat:
                    mdl = q.model()
                    va = [mdl.eval(a[p, 0], model_completion=True).as_long() for p in range(pl)]; vb = [mdl.eval(b[p, 0], model_completion=True).as_long() for p in range(pl)]
                    rep.violation(f'demorgan/bp{m}v', f'NOT({x}(a,b)) != {y}(NOT a, NOT b) for planes a={va} b={vb}', {'form': 'demorgan-bp', 'm': m, 'x': x, 'y': y, 'a': va, 'b': vb})
                else: rep.error('demorgan bp: unknown')
        return rep
    eng = Engine()
    bad = []

    def fn(eng):
        va, vb = z3.BitVec('a', 8), z3.BitVec('b', 8)
        eng.assume(z3.ULT(va, 8), z3.ULT(vb, 8))
        mk = lambda v: np.array([BV(v)], dtype=object)
        old = logic.np; logic.np = NPShim()
        try:
            res = []
            for x, y in ((logic.mv_and, logic.mv_or), (logic.mv_or, logic.mv_and)):
                l = logic.mv_not(x(mk(va), mk(vb)))
                r = y(logic.mv_not(mk(va)), logic.mv_not(mk(vb)))
                res.append((bv_term(l[0]), bv_term(r[0])))
        finally:
            logic.np = old
        rep.counts['obligations'] += 2
        for l, r in res:
            if eng.valid(l == r): rep.counts['discharged'] += 1
            else:
                eng.check(l != r); m = eng.solver.model()
                bad.append((m.eval(va, model_completion=True).as_long(), m.eval(vb, model_completion=True).as_long()))
        return 1
    try: eng.explore(fn)
    except EngineUnknown as e: rep.error(f'demorgan mv: {e}')
    rep.counts['paths'] += eng.npaths; rep.counts['branches'] += eng.nbranches; rep.solver_s += eng.tsolve
    for a, b in bad[:1]:
        A, B = np.array([a], dtype=np.uint8), np.array([b], dtype=np.uint8)
        l = logic.mv_not(logic.mv_and(A, B)); r = logic.mv_or(logic.mv_not(A), logic.mv_not(B))
        l2 = logic.mv_not(logic.mv_or(A, B)); r2 = logic.mv_and(logic.mv_not(A), logic.mv_not(B))
        if (l != r).any() or (l2 != r2).any(): rep.violation('demorgan/mv', f'De Morgan fails for codes a={a} b={b}', {'form': 'demorgan-mv', 'a': a, 'b': b})
        else: rep.error('demorgan mv counterexample does not replay')
    return rep


def big_bp(rep):
    """beyond the symbolic bound: bit-parallel operators on arrays with more than 2^16 bytes per plane against the same operators on the
    array split into small pieces (lanes are independent) - concrete, stated as such"""
    rng = np.random.default_rng(7)
    nb = 65536 + 24
    for m in (4, 8):
        for op, k in (('and', 3), ('or', 2), ('xor', 2), ('not', 1)):
            ins = [rng.integers(0, 256, (3, nb), dtype=np.uint8) for _ in range(k)]
            fn = getattr(logic, f'bp{m}v_{op}')
            out = np.zeros((3, nb), dtype=np.uint8); fn(out, *ins)
            ref = np.zeros((3, nb), dtype=np.uint8)
            for a in range(0, nb, 4096):
                piece = np.zeros((3, min(4096, nb - a)), dtype=np.uint8); fn(piece, *[x[:, a:a + 4096].copy() for x in ins]); ref[:, a:a + piece.shape[1]] = piece
            pl = 3 if m == 8 else 2
            rep.counts['concolic_runs'] += 1
            if not np.array_equal(out[:pl], ref[:pl]):
                b = int(np.flatnonzero((out[:pl] != ref[:pl]).any(axis=0))[0])
                rep.violation(f'bp{m}v_{op}/large', f'bp{m}v_{op} on {nb} bytes per plane differs from the same operator applied piecewise (first differing byte {b})', {'form': 'bigbp', 'm': m, 'op': op, 'k': k})


def dispatch(job):
    kind, case = job
    return {'bp': bp_case, 'mv': mv_case, 'dm': demorgan_case}[kind](case)


def jobs(tier):
    J = []
    for m in (4, 8):
        for op in ('not', 'buf'):
            for lead in ((), (2,)):
                J.append(('bp', (op, m, 1, lead, False)))
            J.append(('bp', ('not', m, 1, (), True)))
            if m == 4: J += [('bp', (op, 4, 1, (), False, '3planes')), ('bp', (op, 4, 1, (), True, '3planes'))]
        for op in ('and', 'or', 'xor'):
            for k in (1, 2, 3, 4):
                J.append(('bp', (op, m, k, (), False)))
            J.append(('bp', (op, m, 2, (2,), False)))
            if m == 4: J += [('bp', (op, 4, 2, (), False, '3planes')), ('bp', (op, 4, 3, (), False, '3planes'))]
    shapes2 = [((1,), (1,)), ((2,), (2,)), ((2, 1), (1, 2)), ((1,), (2,))]
    if tier == 'thorough': shapes2 += [((3,), (3,)), ((2, 2), (2,)), ((2, 1, 1), (1, 2))]
    for op in ('and', 'or', 'xor'):
        for shp in shapes2:
            for outmode in ('none', 'given'):
                J.append(('mv', (op, 'public', shp, outmode)))
        for k in (1, 2, 3, 4):
            J.append(('mv', (op, 'inner', tuple((1,) for _ in range(k)), 'given')))
    for shp in [((1,),), ((3,),), ((2, 2),)]:
        for outmode in ('none', 'given'):
            J.append(('mv', ('not', 'public', shp, outmode)))
    J.append(('mv', ('not', 'inner', ((2,),), 'given')))
    for shp in [((3,),), ((2, 2),)]: J.append(('mv', ('not', 'public', shp, 'strided')))
    for op in ('and', 'or', 'xor'): J.append(('mv', (op, 'public', ((2,), (2,)), 'strided')))
    J += [('dm', 'bp'), ('dm', 'mv')]
    return J


def run(tier, seed):
    J = jobs(tier)
    rep = common.pmap(dispatch, sorted(J, key=lambda j: -(sum(int(np.prod(s)) for s in j[1][2]) if j[0] == 'mv' else 0)), chunksize=1)
    big_bp(rep)
    # reachability twin: a wrong spec must be refuted
    q = lanes.Q(rep)
    a = z3.BitVec('a', 8)
    alg, sp = spec_code('not', [z3.Extract(2, 0, a)])
    if q.check(z3.ULT(a, 8), z3.Not(same_code(alg, sp, z3.Extract(2, 0, a)))) != z3.sat: rep.error('twin failed')
    cov = {
        'states': int(rep.counts['paths']), 'transitions': int(rep.counts['branches']) + int(rep.counts['paths']),
        'traces_validated_against_impl': int(rep.counts['concolic_runs']),
        'obligations': int(rep.counts['obligations']), 'discharged': int(rep.counts['discharged']),
        'explanation': 'states = completed symbolic paths (bp forms have one path; mv forms fork on every comparison of a symbolic code); each mv path is also replayed on real uint8 arrays',
        'functions_encoded': common.fn_sha(logic._mv_not, logic._mv_and, logic._mv_or, logic._mv_xor, logic.mv_not, logic.mv_and, logic.mv_or, logic.mv_xor,
                                           logic.bp4v_buf, logic.bp4v_not, logic.bp4v_and, logic.bp4v_or, logic.bp4v_xor, logic.bp8v_buf, logic.bp8v_not, logic.bp8v_and, logic.bp8v_or, logic.bp8v_xor),
        'bounds': {'operands': '1..4', 'jobs': len(J), 'mv_shapes': 'see samples; broadcasting (2,1)x(1,2), (1,)x(2,)', 'bp_shapes': '[(3|2,2), (2,3|2,2)]; 4-valued operators also on 3-plane arrays with arbitrary third plane'},
        'exhaustive': False,
        'summary': f'{len(J)} jobs, {rep.counts["paths"]} paths, {rep.counts["obligations"]} obligations, {rep.counts["discharged"]} discharged',
    }
    return LEVEL, rep, cov, ASSUME
