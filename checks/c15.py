"""C15 - logic-value encodings convert losslessly and follow the axis convention.
(a) strings: the real interpret / mvarray / mv_str on symbolic characters (E2: every path of the alias matching), vs the documented alias table;
(b) mv <-> bp and the generic bit pack/unpack helpers on symbolic array contents through a numpy shim (vlib/symnp.py);
(c) popcount: the real kyupy.popcount runs on arrays of symbolic bytes (table gather via a z3 array of the real table, or bit tricks on uint8 terms); one query per shape."""
import functools
import itertools

import time

import numpy as np
import z3

import kyupy
from kyupy import logic

from vlib import common, symnp
from vlib.engine import Engine, EngineUnknown, ENG
from vlib import engine as eng_mod

LEVEL = 'model_checking'
ASSUME = [
    'strings: every character is a symbolic 8-bit code (a non-iterable character object whose == forks); lengths enumerated (fully symbolic up to 2 (quick) / 3 (thorough); one symbolic character at each position of concrete strings up to 9)',
    'alias table from the logic.py constant documentation: 0/L/l, 1/H/h, -/Z/z, R/r//, F/f/\\\\, P/p/^, N/n/v, anything else X; rendering 0X-1PRFN',
    'mv<->bp, packbits/unpackbits: array contents symbolic bit-vectors, shapes and dtypes enumerated; numpy\'s C-level np.packbits / np.unpackbits / ndarray.view are replaced by stubs implementing their documented contract, '
    'differentially validated against real numpy on every run',
    'popcount: the real function runs on symbolic uint8 elements; a 256-entry lookup table, if the implementation has one, is the constant array of the query; np.sum is modelled as a 16-bit sum (no wrap for <= 4 bytes); shapes (1,), (3,), (2,2); per query one byte arbitrary and the others in {0x00,0x80,0x5a,0xff}',
]

ALIAS = {0: "0Ll", 3: "1Hh", 2: "-Zz", 5: "Rr/", 6: "Ff\\", 4: "Pp^", 7: "Nnv"}
RENDER = '0X-1PRFN'


class SymChar:
    """a character with symbolic code; not iterable; equality with a 1-character str forks"""
    __slots__ = ('e',)
    __hash__ = None

    def __init__(self, e): self.e = e

    def __eq__(self, o):
        if isinstance(o, str) and len(o) == 1: return eng_mod.ENG.branch(self.e == ord(o))
        if isinstance(o, SymChar): return eng_mod.ENG.branch(self.e == o.e)
        return False                                   # a character never equals 0, 1, True, False, None

    def __ne__(self, o): return not self.__eq__(o)


def expected_code(eng, ch):
    """documented code of a symbolic character under the current path condition (must be determined on the path)"""
    for code, chars in ALIAS.items():
        if eng.valid(z3.Or([ch.e == ord(c) for c in chars])): return code
    if eng.valid(z3.And([ch.e != ord(c) for chars in ALIAS.values() for c in chars])): return 1
    return None


def string_job(job):
    kind, spec = job
    rep = common.Report()
    eng = Engine()
    found = []

    def fn(eng):
        # build the (nested) list of characters; spec: list of strings where '?' marks a symbolic character
        syms = []

        def mk(s):
            out = []
            for c in s:
                if c == '?':
                    v = z3.BitVec(f'c{len(syms)}', 8); eng.assume(z3.UGE(v, 32), z3.ULE(v, 126))
                    syms.append(v); out.append(SymChar(v))
                else: out.append(c)
            return out
        if kind == 'nested':
            # > 2-D input: groups of strings. Lossless + axis convention: (group, pattern, signal) -> (group, signal, pattern); a single pattern per group
            # gives one vector per group - every group is kept (seed C15-r7mut1 dropped the first axis instead of the singleton second-to-last one)
            groups = [[mk(s) for s in g] for g in spec]
            mva = logic.mvarray(*[[list(s) for s in g] for g in groups])
            exp3 = [[[(expected_code(eng, c) if isinstance(c, SymChar) else doc_code(c)) for c in s] for s in g] for g in groups]
            bad = None
            if any(e is None for g in exp3 for row in g for e in row): bad = 'the code of a character is not determined by the path taken through interpret()'
            else:
                want = np.array(exp3, dtype=np.uint8)
                want = want.swapaxes(-1, -2) if want.shape[-2] > 1 else want.reshape(want.shape[0], want.shape[2])
                if mva.shape != want.shape or not np.array_equal(mva, want): bad = f'mvarray of {len(groups)} groups gives {mva.tolist()} (shape {mva.shape}), lossless/axis convention {want.tolist()} (shape {want.shape})'
            rep.counts['obligations'] += 1
            mdl = eng.model()
            conc = [[''.join(chr(mdl.eval(c.e, model_completion=True).as_long()) if isinstance(c, SymChar) else c for c in s) for s in g] for g in groups]
            if bad: found.append(({'mode': 'nested', 'groups': conc}, bad))
            else:
                rep.counts['discharged'] += 1
                ok, what = replay({'mode': 'nested', 'groups': conc}); rep.counts['concolic_runs'] += 1
                if ok: found.append(({'mode': 'nested', 'groups': conc}, 'real str behaves differently from the symbolic character model: ' + what))
            return 1
        strs = [mk(s) for s in spec]
        given = [list(s) for s in strs]              # what the caller hands over (lists of characters); converted twice below
        mva = logic.mvarray(*given)
        exp = [[(expected_code(eng, c) if isinstance(c, SymChar) else next((k for k, a in ALIAS.items() if c in a), 1)) for c in s] for s in strs]
        bad = None
        if any(e is None for row in exp for e in row): bad = 'the code of a character is not determined by the path taken through interpret()'
        else:
            want = np.array(exp, dtype=np.uint8)
            if len(strs) == 1: want = want[0]                      # one string: 1-D, patterns... (single vector)
            else: want = want.T                                   # several strings: last axis = patterns, second-to-last = positions (signals)
            if mva.shape != want.shape or not np.array_equal(mva, want): bad = f'mvarray gives {mva.tolist()} (shape {mva.shape}), documented {want.tolist()} (shape {want.shape})'
            elif not np.array_equal(logic.mvarray(*given), want): bad = 'converting the same list object a second time gives a different array (second conversion)'
            else:
                try:
                    txt = logic.mv_str(mva)
                    wtxt = '\n'.join(''.join(RENDER[e] for e in row) for row in exp)
                    if str(txt) != wtxt: bad = f'mv_str renders {txt!r}, documented {wtxt!r}'
                    else:
                        back = logic.mvarray(*str(txt).split('\n'))
                        if back.shape != mva.shape or not np.array_equal(back, mva): bad = 'rendered string does not parse back to the same array'
                except Exception as e:
                    bad = f'mv_str raised {type(e).__name__}: {e}'
        rep.counts['obligations'] += 1
        mdl = eng.model()
        conc = [''.join(chr(mdl.eval(c.e, model_completion=True).as_long()) if isinstance(c, SymChar) else c for c in s) for s in strs]
        if bad: found.append(({'mode': 'string', 'strings': conc}, bad))
        else:
            rep.counts['discharged'] += 1
            # concolic: the same path with a real Python str
            ok, what = replay({'mode': 'string', 'strings': conc})
            rep.counts['concolic_runs'] += 1
            if ok: found.append(({'mode': 'string', 'strings': conc}, 'real str behaves differently from the symbolic character model: ' + what))
        return 1
    try: eng.explore(fn)
    except EngineUnknown as e: rep.error(f'string {spec}: {e}')
    except Exception as e:
        if kind == 'nested':
            data = {'mode': 'nested', 'groups': [[s.replace('?', 'R') for s in g] for g in spec]}
            ok, what = replay(data)
            if ok: rep.violation('strings/nested-exception', what, data)
            else: rep.error(f'nested {spec}: {type(e).__name__}: {e}')
            return rep
        ok, what = replay({'mode': 'string', 'strings': [s.replace('?', 'R') for s in spec]})
        if ok: rep.violation('strings/exception', what, {'mode': 'string', 'strings': [s.replace('?', 'R') for s in spec]})
        else: rep.error(f'string {spec}: {type(e).__name__}: {e}')
    rep.counts['paths'] += eng.npaths; rep.counts['branches'] += eng.nbranches; rep.solver_s += eng.tsolve
    for data, detail in found[:1]:
        ok, what = replay(data)
        if ok: rep.violation('strings/' + ('mv_str' if 'mv_str' in what or 'mv_str' in detail else 'interpret'), f'{detail}; replay: {what}', data)
        else: rep.error(f'string {spec}: {detail} - does not replay with {data}')
    if eng.complete and not found: rep.sample({'strings': list(spec), 'paths': eng.npaths, 'verdict': 'valid on all paths'}, limit=3)
    return rep


def doc_code(c):
    return next((k for k, a in ALIAS.items() if c in a), 1)


def replay_nested(data):
    groups = data['groups']
    try: mva = logic.mvarray(*groups)
    except Exception as e: return True, f'mvarray raised {type(e).__name__}: {e}'
    want = np.array([[[doc_code(c) for c in s] for s in g] for g in groups], dtype=np.uint8)
    want = want.swapaxes(-1, -2) if want.shape[-2] > 1 else want.reshape(want.shape[0], want.shape[2])
    if mva.shape != want.shape or not np.array_equal(mva, want):
        return True, f'mvarray(*{groups}) = {mva.tolist()} (shape {mva.shape}); no value may be lost, (group, signal, pattern) order gives {want.tolist()} (shape {want.shape})'
    return False, 'ok'


def replay_string(data):
    strs = data['strings']
    try:
        mva = logic.mvarray(*strs)
    except Exception as e: return True, f'mvarray raised {type(e).__name__}: {e}'
    want = np.array([[doc_code(c) for c in s] for s in strs], dtype=np.uint8)
    want = want[0] if len(strs) == 1 else want.T
    if mva.shape != want.shape or not np.array_equal(mva, want): return True, f'mvarray{tuple(strs)} = {mva.tolist()}, documented {want.tolist()}'
    try:
        lst = [list(s) for s in strs]
        first = logic.mvarray(*lst); second = logic.mvarray(*lst); bp = logic.mv_to_bp(logic.mvarray(*lst)) if len(strs) > 1 else None
        if not np.array_equal(first, want) or not np.array_equal(second, want):
            return True, f'second conversion of the same list object: mvarray gives {first.tolist()} then {second.tolist()}, documented {want.tolist()}'
    except Exception as e: return True, f'mvarray on a list of characters raised {type(e).__name__}: {e}'
    try: txt = logic.mv_str(mva)
    except Exception as e: return True, f'mv_str raised {type(e).__name__}: {e}'
    wtxt = '\n'.join(''.join(RENDER[doc_code(c)] for c in s) for s in strs)
    if str(txt) != wtxt: return True, f'mv_str renders {str(txt)!r}, documented {wtxt!r}'
    return False, 'ok'


# ------------------------------------------------------------------------------------------------ (b) bit packing

def sym_array(shape, w, tag='v'):
    a = np.empty(shape, dtype=object)
    for idx in np.ndindex(shape): a[idx] = z3.BitVec(tag + '_'.join(map(str, idx)), w)
    return a


def pack_job(job):
    kind, spec = job
    rep = common.Report()
    old = logic.np
    logic.np = symnp.SymNP()
    bad = []
    q = z3.Solver(); q.set('timeout', 60000)

    def valid(claim):
        rep.counts['queries_engine'] += 1
        return q.check(z3.Not(claim)) == z3.unsat
    try:
        if kind == 'mvbp':
            shape = spec
            a = sym_array(shape, 8)
            sa = symnp.SymArr(a, np.uint8)
            bp = logic.mv_to_bp(sa)
            a2 = a if len(shape) > 1 else a[..., np.newaxis]
            n = a2.shape[-1]; nb = (n + 7) // 8
            want_shape = a2.shape[:-1] + (3, nb)
            if bp.shape != want_shape: bad.append(f'mv_to_bp shape {bp.shape}, convention demands {want_shape} (signals second-to-last... planes, bytes of patterns last)')
            else:
                for idx in np.ndindex(a2.shape[:-1]):
                    for p in range(3):
                        for b in range(nb):
                            for k in range(8):
                                got = z3.Extract(k, k, symnp.bvw(bp[idx + (p, b)], 8))
                                exp = z3.Extract(p, p, a2[idx + (8 * b + k,)]) if 8 * b + k < n else z3.BitVecVal(0, 1)
                                rep.counts['obligations'] += 1
                                if valid(got == exp): rep.counts['discharged'] += 1
                                else: bad.append(f'bit-parallel plane {p} byte {b} bit {k} of signal {idx} is not bit {p} of pattern {8 * b + k}'); break
                mv = logic.bp_to_mv(bp)
                want2 = a2.shape[:-1] + (8 * nb,)
                if mv.shape != want2: bad.append(f'bp_to_mv shape {mv.shape}, expected {want2}')
                else:
                    for idx in np.ndindex(want2):
                        exp = (a2[idx] & 7) if idx[-1] < n else z3.BitVecVal(0, 8)
                        rep.counts['obligations'] += 1
                        if valid(symnp.bvw(mv[idx], 8) == exp): rep.counts['discharged'] += 1
                        else: bad.append(f'round trip mv -> bp -> mv changes entry {idx} (padding lanes must read 0)'); break
        else:
            dt, shape, m = spec
            dt = np.dtype(dt); w = 8 * dt.itemsize
            a = sym_array(shape, w)
            sa = symnp.SymArr(a, dt)
            u = logic.unpackbits(sa)
            native = dt.byteorder in '=|'
            if u.shape != tuple(shape) + (w,): bad.append(f'unpackbits shape {u.shape}')
            else:
                for idx in (np.ndindex(tuple(shape)) if native else []):          # bit positions are documented for items in native storage order
                    for k in range(w):
                        rep.counts['obligations'] += 1
                        if valid(symnp.bit1(u[idx + (k,)]) == z3.Extract(k, k, a[idx])): rep.counts['discharged'] += 1
                        else: bad.append(f'unpackbits: bit {k} of item {idx} wrong'); break
                back = logic.packbits(u, dt)
                ok = back.shape == tuple(shape) and all(valid(symnp.bvw(back[idx], w) == a[idx]) for idx in np.ndindex(tuple(shape)))
                rep.counts['obligations'] += 1
                if ok: rep.counts['discharged'] += 1
                else: bad.append(f'packbits(unpackbits(x), {dt}) != x')
                # truncated / padded input: m bits available
                part = logic.packbits(u[..., :m], dt) if native else None
                for idx in (np.ndindex(tuple(shape)) if native else []):
                    x = a[idx]
                    if m >= w: exp = x
                    elif dt.kind == 'i': exp = z3.SignExt(w - m, z3.Extract(m - 1, 0, x))
                    else: exp = z3.ZeroExt(w - m, z3.Extract(m - 1, 0, x))
                    rep.counts['obligations'] += 1
                    if part.shape == tuple(shape) and valid(symnp.bvw(part[idx], w) == exp): rep.counts['discharged'] += 1
                    else: bad.append(f'packbits of {m} bits into {dt}: documented padding ({"sign" if dt.kind == "i" else "zero"}) violated'); break
    except Exception as e:
        import traceback
        bad.append(f'{type(e).__name__}: {e} {traceback.format_exc()[-300:]}')
    finally:
        logic.np = old
    rep.counts['paths'] += 1
    data = {'mode': 'pack', 'kind': kind, 'spec': [str(spec[0]), list(spec[1]), spec[2]] if kind == 'pack' else list(spec)}
    if not bad:          # concolic step: the same claims on concrete arrays through the real numpy (validates the stubs' view of the code)
        rep.counts['concolic_runs'] += 1
        ok, what = replay_pack(data)
        if ok: rep.violation(f'{kind}/{data["spec"]}', f'concrete run: {what}', data)
    if bad:
        ok, what = replay(data)
        if ok: rep.violation(f'{kind}/{data["spec"]}', f'{bad[0]}; replay: {what}', data)
        else: rep.error(f'{kind} {spec}: {bad[0]} - not reproduced on concrete data')
    else: rep.sample({'conversion': kind, 'spec': data['spec'], 'verdict': 'valid for all contents'}, limit=4)
    return rep


def replay_pack(data):
    rng = np.random.default_rng(5)
    try:
        if data['kind'] == 'mvbp':
            shape = tuple(data['spec'])
            for _ in range(20):
                a = rng.integers(0, 8, shape, dtype=np.uint8)
                bp = logic.mv_to_bp(a)
                a2 = a if a.ndim > 1 else a[..., np.newaxis]
                n = a2.shape[-1]; nb = (n + 7) // 8
                if bp.shape != a2.shape[:-1] + (3, nb): return True, f'mv_to_bp shape {bp.shape}'
                for idx in np.ndindex(a2.shape[:-1]):
                    for p in range(3):
                        for b in range(nb):
                            for k in range(8):
                                exp = (int(a2[idx + (8 * b + k,)]) >> p) & 1 if 8 * b + k < n else 0
                                if (int(bp[idx + (p, b)]) >> k) & 1 != exp: return True, f'mv_to_bp({a.tolist()}) plane {p} byte {b} bit {k}'
                mv = logic.bp_to_mv(bp)
                exp = np.zeros(a2.shape[:-1] + (8 * nb,), dtype=np.uint8); exp[..., :n] = a2
                if mv.shape != exp.shape or not np.array_equal(mv, exp): return True, f'bp_to_mv(mv_to_bp({a.tolist()})) = {mv.tolist()}'
            return False, 'ok'
        dt = np.dtype(data['spec'][0]); shape = tuple(data['spec'][1]); m = data['spec'][2]; w = 8 * dt.itemsize
        info = np.iinfo(dt)
        native = dt.byteorder in '=|'
        for _ in range(20):
            a = rng.integers(info.min, info.max, shape, dtype=dt.newbyteorder('='), endpoint=True).astype(dt)
            u = logic.unpackbits(a)
            if u.shape != shape + (w,): return True, f'unpackbits shape {u.shape}'
            if not native:
                if not np.array_equal(logic.packbits(u, dt), a): return True, f'packbits(unpackbits(x), {dt.str}) != x for {a.tolist()}'
                continue
            for idx in np.ndindex(shape):
                for k in range(w):
                    if int(u[idx + (k,)]) != (int(a[idx]) >> k) & 1: return True, f'unpackbits bit {k} of {int(a[idx])}'
            if not np.array_equal(logic.packbits(u, dt), a): return True, f'packbits(unpackbits(x)) != x for {a.tolist()}'
            part = logic.packbits(u[..., :m], dt)
            for idx in np.ndindex(shape):
                x = int(a[idx]) & ((1 << w) - 1)
                low = x & ((1 << min(m, w)) - 1)
                if m < w and dt.kind == 'i' and (low >> (m - 1)) & 1: low |= ((1 << w) - 1) ^ ((1 << m) - 1)
                if int(part[idx]) & ((1 << w) - 1) != low: return True, f'packbits of the low {m} bits of {int(a[idx])} into {dt} gives {int(part[idx])}'
        return False, 'ok'
    except Exception as e:
        return True, f'{type(e).__name__}: {e}'


# ------------------------------------------------------------------------------------------------ (c) popcount

class UB:
    """one element of a numpy uint8 array (arithmetic with small python ints stays uint8 and wraps)"""
    def __init__(self, e): self.e = e
    @staticmethod
    def _c(o):
        if isinstance(o, UB): return o.e
        if isinstance(o, (int, np.integer)) and 0 <= int(o) < 256: return z3.BitVecVal(int(o), 8)
        raise NotImplementedError(f'uint8 operand {o!r}')
    def __add__(self, o): return UB(self.e + UB._c(o))
    __radd__ = __add__
    def __sub__(self, o): return UB(self.e - UB._c(o))
    def __rsub__(self, o): return UB(UB._c(o) - self.e)
    def __mul__(self, o): return UB(self.e * UB._c(o))
    __rmul__ = __mul__
    def __and__(self, o): return UB(self.e & UB._c(o))
    __rand__ = __and__
    def __or__(self, o): return UB(self.e | UB._c(o))
    __ror__ = __or__
    def __xor__(self, o): return UB(self.e ^ UB._c(o))
    __rxor__ = __xor__
    def __invert__(self): return UB(~self.e)
    def __rshift__(self, o): return UB(z3.LShR(self.e, UB._c(o)))
    def __lshift__(self, o): return UB(self.e << UB._c(o))


SUMW = 16          # width of the accumulator in the query (arrays of <= 4 bytes: no wrap; numpy's own accumulator has 64 bits)


def _as_int(x):
    if isinstance(x, UB): x = x.e
    if z3.is_bv(x): return x if x.size() == SUMW else z3.ZeroExt(SUMW - x.size(), x)
    return z3.BitVecVal(int(x), SUMW)


class SymLUT:
    """the real lookup table as a z3 if-then-else chain; indexing with an array of symbolic bytes yields Select terms"""
    def __init__(self, table):
        self.table = [int(v) for v in table]

    def sel(self, b):
        e = z3.BitVecVal(0, SUMW)          # (an index past the table would raise in numpy; the byte cannot exceed 255 with 256 entries)
        for i in reversed(range(len(self.table))): e = z3.If(b == i, z3.BitVecVal(self.table[i], SUMW), e)
        return e

    def __getitem__(self, a):
        a = np.asarray(a, dtype=object)
        out = np.empty(a.shape, dtype=object)
        for idx in np.ndindex(a.shape): out[idx] = self.sel(UB._c(a[idx]))
        return out


class PopNP:
    """np as seen by kyupy.popcount during the symbolic run: sum() adds in unbounded integers (numpy sums uint8 in a 64-bit
    accumulator; here a 16-bit one suffices for <= 4 bytes), asarray keeps the symbolic array"""
    def __getattr__(self, n): return getattr(np, n)
    @staticmethod
    def asarray(a, *k, **kw): return a
    @staticmethod
    def sum(a, *k, **kw): return functools.reduce(lambda x, y: x + y, [_as_int(x) for x in np.asarray(a, dtype=object).reshape(-1)])


def popcount_check(rep):
    """the real kyupy.popcount executed on arrays of symbolic bytes (whatever its implementation: table gather or bit tricks)"""
    names = {}
    # one query per (shape, free position): that byte is arbitrary, the others range over {0x00, 0x80, 0x5a, 0xff}
    # (all bytes arbitrary at once is an adder-tree equivalence z3 does not finish in 30 s for 3 bytes - measured)
    for shape, pos in [(sh, p) for sh in ((1,), (3,), (2, 2)) for p in range(int(np.prod(sh)))]:
        a = np.empty(shape, dtype=object)
        vs, cons = [], []
        for k, idx in enumerate(np.ndindex(shape)):
            v = z3.BitVec('p' + '_'.join(map(str, idx)), 8); vs.append(v); a[idx] = UB(v)
            if k != pos: cons.append(z3.Or(v == 0, v == 0x80, v == 0x5a, v == 0xff))
        old_np, had_lut, old_lut = kyupy.np, hasattr(kyupy, '_pop_count_lut'), getattr(kyupy, '_pop_count_lut', None)
        kyupy.np = PopNP()
        try:
            if had_lut:
                lut = [int(x) for x in np.asarray(old_lut).reshape(-1)]
                kyupy._pop_count_lut = SymLUT(lut)
            got = kyupy.popcount(a)
        except Exception as e:
            got = None; why = f'{type(e).__name__}: {e}'
        finally:
            kyupy.np = old_np
            if had_lut: kyupy._pop_count_lut = old_lut
        rep.counts['obligations'] += 1
        if got is None:
            # the implementation uses something the symbolic byte does not model: concrete run over every byte value (not a solver verdict)
            rep.note(f'popcount shape {shape}: symbolic run not possible ({why}); decided by enumeration of all 256 byte values instead')
            for v in range(256):
                arr = np.full(shape, v, dtype=np.uint8)
                rep.counts['concolic_runs'] += 1
                if int(kyupy.popcount(arr)) != arr.size * bin(v).count('1'):
                    rep.violation('popcount/value', f'popcount({arr.tolist()}) = {int(kyupy.popcount(arr))}', {'mode': 'popcount', 'array': arr.tolist()}); return
            rep.counts['discharged'] += 1
            continue
        want = functools.reduce(lambda x, y: x + y, [z3.ZeroExt(SUMW - 1, z3.Extract(k, k, v)) for v in vs for k in range(8)])
        s = z3.Solver(); s.set('timeout', 60000)
        s.add(cons); s.add(_as_int(got) != want)
        t = time.time(); r = s.check(); rep.solver_s += time.time() - t
        rep.counts['queries_' + str(r)] += 1
        if r == z3.sat:
            m = s.model()
            arr = np.array([m.eval(v, model_completion=True).as_long() for v in vs], dtype=np.uint8).reshape(shape)
            data = {'mode': 'popcount', 'array': arr.tolist()}
            ok, what = replay(data)
            if ok: rep.violation('popcount/value', what, data)
            else: rep.error(f'popcount: counterexample {arr.tolist()} does not replay')
            return
        if r != z3.unsat: rep.error('popcount query unknown'); return
        rep.counts['discharged'] += 1
    # concrete differential on larger arrays (np.sum itself is trusted numpy), supplementary
    rng = np.random.default_rng(3)
    # ... including sizes around powers of two far beyond the symbolic bound (an implementation may process large arrays in batches)
    for shape in ((1,), (5,), (2, 3), (2, 3, 4), (2 ** 16 + 1,), (2 ** 20,), (2 ** 20 + 1,), (3, 2 ** 20 + 5), (2 ** 22 + 3,)):
        a = rng.integers(0, 256, shape, dtype=np.uint8)
        rep.counts['concolic_runs'] += 1
        want = int(np.unpackbits(a.reshape(-1)).sum(dtype=np.int64))
        if int(kyupy.popcount(a)) != want:
            data = {'mode': 'popcount', 'random_shape': list(shape)} if a.size > 64 else {'mode': 'popcount', 'array': a.tolist()}
            rep.violation('popcount/sum', f'popcount of a random uint8 array of shape {shape} = {int(kyupy.popcount(a))}, it has {want} one bits', data)


def big_mvbp(rep):
    """beyond the symbolic bound: mv <-> bp conversion of arrays with more than 2^20 values (an implementation may convert in pieces) against the definition - concrete"""
    rng = np.random.default_rng(9)
    for shape in ((600, 4003), (3, 300, 1501), (1, 2 ** 20 + 13)):
        a = rng.integers(0, 8, shape, dtype=np.uint8)
        bp = logic.mv_to_bp(a)
        n = shape[-1]; nbytes = (n + 7) // 8
        rep.counts['concolic_runs'] += 1
        ok = bp.shape == shape[:-1] + (3, nbytes)
        if ok:
            pad = np.zeros(shape[:-1] + (nbytes * 8,), dtype=np.uint8); pad[..., :n] = a
            for p in range(3):
                want = np.packbits((pad >> p) & 1, axis=-1, bitorder='little')
                if not np.array_equal(bp[..., p, :], want): ok = False; break
            if ok and not np.array_equal(logic.bp_to_mv(bp)[..., :n], a): ok = False
        if not ok:
            rep.violation('mvbp/large', f'mv_to_bp / bp_to_mv of a random array of shape {shape}: plane bits are not the value bits of the patterns (pattern p in bit p%8 of byte p//8) or the round trip changes values', {'mode': 'bigmvbp'})
            return


def replay(data):
    if data['mode'] == 'bigmvbp':
        r = common.Report(); big_mvbp(r)
        return bool(r.violations), r.violations[0]['what'] if r.violations else 'ok'
    if data['mode'] == 'string': return replay_string(data)
    if data['mode'] == 'nested': return replay_nested(data)
    if data['mode'] == 'pack': return replay_pack(data)
    if 'random_shape' in data:
        arr = np.random.default_rng(3).integers(0, 256, tuple(data['random_shape']), dtype=np.uint8)
        got, want = int(kyupy.popcount(arr)), int(np.unpackbits(arr.reshape(-1)).sum(dtype=np.int64))
        return got != want, f'popcount of a random uint8 array of shape {data["random_shape"]} = {got}, it has {want} one bits'
    arr = np.array(data.get('array', [255]), dtype=np.uint8)
    got, want = int(kyupy.popcount(arr)), sum(bin(int(v)).count('1') for v in arr.reshape(-1))
    return got != want, f'popcount({arr.tolist()}) = {got}, the array has {want} one bits'


def jobs(tier):
    J = []
    nfull = 2 if tier == 'quick' else 3
    for n in range(1, nfull + 1): J.append(('string', ('?' * n,)))
    J.append(('string', ('?0', '1?')))
    J.append(('string', ('?R', 'F?', 'X-')))
    base = '01X-RFPNl'
    for pos in range(len(base)): J.append(('string', (base[:pos] + '?' + base[pos + 1:],)))
    for pos in range(3): J.append(('string', ('0Hz'[:pos] + '?' + '0Hz'[pos + 1:], 'Lh^', 'v/\\')))
    J.append(('nested', (('01XR',), ('1?00',), ('PN-F',))))             # three groups of one pattern each: (3, 1, 4) -> (3, 4)
    J.append(('nested', (('?1', 'R0'), ('0H', 'FP'), ('--', 'Nv'))))     # three groups of two patterns: (3, 2, 2) -> (3, 2, 2) with the last two axes swapped
    for shape in [(1,), (3,), (1, 1), (2, 3), (3, 8), (2, 9), (1, 17), (2, 2, 3), (2, 1, 9)] + ([(3, 3, 17), (2, 2, 2, 5)] if tier == 'thorough' else []):
        J.append(('mvbp', shape))
    for dt in ('uint8', 'int8', 'uint16', 'int16', 'uint32', 'int32', 'uint64', 'int64'):
        w = 8 * np.dtype(dt).itemsize
        for shape, m in (((2,), 3), ((1, 2), w - 1), ((2,), w + 3), ((1,), 1)):
            J.append(('pack', (dt, shape, m)))
    for dt in ('>u2', '>i2', '>u4', '>i8'):          # items stored in non-native byte order: the helpers still invert each other
        J.append(('pack', (dt, (2,), 8 * np.dtype(dt).itemsize)))
    return J


def dispatch(job):
    return string_job(job) if job[0] in ('string', 'nested') else pack_job(job)


def run(tier, seed):
    J = jobs(tier)
    rep = common.pmap(dispatch, J, chunksize=1)
    probs = symnp.selfcheck([(3,), (2, 3), (2, 3, 2), (1,), (2, 1, 9)], np.random.default_rng(seed))
    if probs: rep.error(f'numpy stub differs from real numpy: {probs[:3]}')
    rep.counts['stub_validations'] += 1
    popcount_check(rep)
    big_mvbp(rep)
    cov = {
        'states': int(rep.counts['paths']), 'transitions': int(rep.counts['branches']) + int(rep.counts['paths']), 'traces_validated_against_impl': int(rep.counts['concolic_runs']),
        'obligations': int(rep.counts['obligations']), 'discharged': int(rep.counts['discharged']), 'jobs': len(J),
        'explanation': 'strings: completed paths through the real interpret() for symbolic characters, each replayed with a real str; packing: one symbolic run per shape/dtype with a z3 validity query per output bit / item',
        'functions_encoded': common.fn_sha(logic.interpret, logic.mvarray, logic.mv_str, logic.mv_to_bp, logic.bp_to_mv, logic.unpackbits, logic.packbits, kyupy.popcount),
        'stubs': ['np.packbits', 'np.unpackbits', 'ndarray.view (byte split/merge)', 'kyupy._pop_count_lut as z3 array holding the real table'],
        'bounds': {'fully symbolic string length': 2 if tier == 'quick' else 3, 'pattern counts': [1, 3, 5, 8, 9, 17], 'dtypes': 8},
        'exhaustive': False,
        'summary': f'{len(J)} jobs, {rep.counts["paths"]} paths, {rep.counts["obligations"]} obligations, {rep.counts["discharged"]} discharged',
    }
    return LEVEL, rep, cov, ASSUME
