"""C01 - 2-valued logic simulation computes the netlist's Boolean function (E1 lane engine + ref2 oracle)."""
import numpy as np
import z3

from kyupy import logic_sim, sim as ksim, circuit as kcircuit
from kyupy.logic_sim import LogicSim

from vlib import common, lanes, netlist, ref2

LEVEL = 'model_checking'
ASSUME = [
    'circuit structure is concrete: corpus G1 (all primitive kinds x pin patterns), G2 (hand-made shapes), G3 (seeded random DAGs), G4 (repo netlists); stimuli are fully symbolic',
    'an unconnected input pin reads constant 0 (statement); sized AND/NAND kinds with trailing open pins are included and reported under a known finding',
    'oracle ref2 (vlib/ref2.py) is trusted: gate functions from the documentation, forks transparent, DFF pin1 = not(state), latch = state element, open pin = 0, a driven port passes its value on',
    'initial content of signal memory is arbitrary (symbolic garbage) except the constant-zero slot; results must not depend on it',
    'z3 bit-vector theory; numpy object-array dispatch to Python operators',
]


def corpus(tier, seed):
    items = []
    for nl in netlist.g1_primitives():
        for style in ('bench', 'verilog'):
            items.append((('nl', nl.to_json(), style), 3, 'plain'))
        items.append((('nl', nl.to_json(), 'lean'), 8, 'cb'))
    for nl in netlist.g1_sized_trailing_open():
        items.append((('nl', nl.to_json(), 'verilog'), 3, 'plain'))
    for nl in netlist.g2_shapes():
        for style in ('bench', 'verilog', 'lean', 'vbf'):
            for sims in (1, 3, 8, 9, 17):
                items.append((('nl', nl.to_json(), style), sims, 'plain'))
            items.append((('nl', nl.to_json(), style), 9, 'cb'))
            if nl.state_gates():
                for k in (1, 2, 3):
                    items.append((('nl', nl.to_json(), style), 3, f'cycle{k}'))
    n3 = 40 if tier == 'quick' else 1200
    g3 = netlist.g3_random(seed, n3) if tier == 'quick' else netlist.g3_random(seed, 800) + netlist.g3_random(seed + 1000, 400, max_in=8, max_gates=28, max_dff=5, max_latch=2)
    for j, nl in enumerate(g3):
        style = ('bench', 'verilog', 'lean')[j % 3]
        sims = (1, 3, 8, 9, 17)[j % 5]
        items.append((('nl', nl.to_json(), style), sims, 'plain'))
        items.append((('nl', nl.to_json(), style), 3, 'cb'))
        if nl.state_gates():
            items.append((('nl', nl.to_json(), style), 3, f'cycle{1 + j % 3}'))
        items.append((('nl', nl.to_json(), style), 3, 'plain+opts'))          # memory reuse + stripped forks (the statement covers every configuration)
        if tier == 'thorough':
            for st in ('bench', 'verilog', 'lean'):
                if st != style: items.append((('nl', nl.to_json(), st), 9, 'plain'))
    for nl in netlist.g2_shapes() + layered_shapes():
        for style in ('verilog', 'bench', 'lean'):
            items.append((('nl', nl.to_json(), style), 3, 'plain+opts'))
            if nl.state_gates():
                items.append((('nl', nl.to_json(), style), 3, 'cycle2+opts'))
                items.append((('nl', nl.to_json(), style), 3, 'cycle3+opts'))
    for r in netlist.G4:
        items.append((r, 9, 'plain'))
        items.append((r, 3, 'plain+opts'))
        items.append((r, 3, 'cycle2'))
    if tier == 'thorough':
        for r in netlist.G4_BIG: items.append((r, 8, 'plain'))
    return items


def layered_shapes():
    """deeper layered circuits in which early signals are observed by flip-flops / outputs and also feed gates (memory-reuse pressure)"""
    S = []
    for depth in (4, 6):
        gates, prev = [], ['a', 'b', 'c']
        ports = [('a', 'in'), ('b', 'in'), ('c', 'in')]
        for lv in range(depth):
            cur = []
            for k in range(3):
                o = f's{lv}_{k}'
                gates.append((f'g{lv}_{k}', ['NAND2', 'XOR2', 'NOR2'][(lv + k) % 3], [o], [prev[k], prev[(k + 1) % 3]]))
                cur.append(o)
            if lv in (0, 1): gates.append((f'ff{lv}', 'DFF', [f'q{lv}', None], [cur[0]]))
            if lv == 1: ports.append((cur[1], 'out'))
            prev = cur
        ports += [(prev[0], 'out'), (prev[2], 'out')]
        gates.append(('gq', 'AND2', ['zq'], ['q0', 'q1'])); ports.append(('zq', 'out'))
        S.append(netlist.NL(f'layered{depth}', ports, gates))
    return S


def _oracle_cycles(c, assign, k, zero, ones, cut=False):
    """k applications of the next-state function with the primary inputs held; returns (captured of last step, state before last step)."""
    sn = ref2.s_nodes(c)
    cur = dict(assign)
    cap = None
    for _ in range(k):
        cap = ref2.Ref2(c, cur, zero, ones, driven_ports_cut=cut).captured()
        prev = cur
        cur = dict(cur)
        for i, n in enumerate(sn):
            if ref2.is_state(n.kind) and i in cap: cur[i] = cap[i]
    return cap, cur


def run_symbolic(c, sims, variant):
    """-> (sim, ins, list of (what, slot, byte, sim_term, ref_term, mask))"""
    opt = variant.endswith('+opts')
    variant = variant.replace('+opts', '')
    s = LogicSim(c, sims, m=2, c_reuse=opt, strip_forks=opt)
    ins = lanes.symbolize(s)
    nbytes = s.c.shape[-1]
    k = int(variant[5:]) if variant.startswith('cycle') else 0
    if k:
        s.cycle(k)
        s.s = lanes.norm(s.s)
    else:
        lanes.simulate(s, use_cb_path=(variant == 'cb'))
    obl = []
    for b in range(nbytes):
        assign = {i: ins[(i, 0, b)] for i in range(s.s_len)}
        mask = lanes.lane_mask(sims, b)
        if k:
            cap, state = _oracle_cycles(c, assign, k, lanes.ZERO, lanes.ONES)
            sn = ref2.s_nodes(c)
            for i, n in enumerate(sn):
                if ref2.is_state(n.kind) and i in cap:
                    obl.append(('state-after-cycles', i, b, s.s[0, i, 0, b], state[i], mask))
            for i, v in cap.items():
                obl.append(('captured-last-cycle', i, b, s.s[1, i, 0, b], v, mask))
        else:
            cap = ref2.Ref2(c, assign, lanes.ZERO, lanes.ONES).captured()
            for i, v in cap.items():
                obl.append(('captured', i, b, s.s[1, i, 0, b], v, mask))
                obl.append(('captured-plane1', i, b, s.s[1, i, 1, b], v, mask))      # documented 0b000 / 0b011 encoding
    return s, ins, obl


def concrete(recipe, sims, variant, in_bytes):
    """Replay on the real code with real uint8 arrays.  in_bytes: {(slot, plane, byte): int}.  -> list of mismatches."""
    c = netlist.from_recipe(recipe)
    opt = variant.endswith('+opts')
    variant = variant.replace('+opts', '')
    s = LogicSim(c, sims, m=2, c_reuse=opt, strip_forks=opt)
    for (i, p, b), v in in_bytes.items(): s.s[0, i, p, b] = v
    k = int(variant[5:]) if variant.startswith('cycle') else 0
    if k: s.cycle(k)
    else:
        s.s_to_c()
        if variant == 'cb': s.c_prop(lambda *a: None)
        else: s.c_prop()
        s.c_to_s()
    bad = []
    sn = ref2.s_nodes(c)
    for cut in (False, True):
        bad_c = []
        for b in range(s.c.shape[-1]):
            assign = {i: int(in_bytes.get((i, 0, b), 0)) for i in range(s.s_len)}
            mask = lanes.lane_mask(sims, b)
            if k:
                cap, state = _oracle_cycles(c, assign, k, 0, 255, cut=cut)
                for i, n in enumerate(sn):
                    if ref2.is_state(n.kind) and i in cap and (int(s.s[0, i, 0, b]) ^ state[i]) & mask:
                        bad_c.append(('state-after-cycles', sn[i].name, b, int(s.s[0, i, 0, b]), state[i] & 255))
            else:
                cap = ref2.Ref2(c, assign, 0, 255, driven_ports_cut=cut).captured()
            for i, v in cap.items():
                if (int(s.s[1, i, 0, b]) ^ v) & mask: bad_c.append(('captured', sn[i].name, b, int(s.s[1, i, 0, b]), v & 255))
                if not k and (int(s.s[1, i, 1, b]) ^ v) & mask: bad_c.append(('captured-plane1', sn[i].name, b, int(s.s[1, i, 1, b]), v & 255))
        bad.append(bad_c)
    return bad     # [mismatches vs. netlist semantics, mismatches vs. semantics with driven ports cut]


def has_driven_port_with_readers(c):
    return any(len(n.ins) > 0 and n.ins[0] is not None and any(l is not None for l in n.outs) and not ref2.is_state(n.kind) for n in c.io_nodes)


def classify(recipe, sims, variant, in_bytes):
    """-> (reproduced, key, what)"""
    try:
        bad, bad_cut = concrete(recipe, sims, variant, in_bytes)
    except Exception as e:
        return True, f'exception={type(e).__name__}', f'real code raised {type(e).__name__}: {e}'
    if not bad: return False, None, 'not reproduced'
    c = netlist.from_recipe(recipe)
    name = recipe[1]['name'] if recipe[0] == 'nl' else recipe[1]
    ref2.SIZED_BY_CONNECTION = True
    try: alt, _ = concrete(recipe, sims, variant, in_bytes)
    finally: ref2.SIZED_BY_CONNECTION = False
    if not alt:
        return True, 'shape=sized-and-trailing-open-pin', f'{name}: a sized AND/NAND-type primitive with trailing open pins takes its arity from the connected pins instead of reading 0: {bad[0]}'
    if has_driven_port_with_readers(c) and not bad_cut:
        return True, 'shape=driven-port-with-fanout', f'{name}: port with driver and readers is cut, readers see the assigned value: {bad[0]}'
    return True, f'circuit={name}/{recipe[2] if recipe[0] == "nl" else ""}/{variant}', f'sims={sims}: (what, node, byte, simulated, netlist value)={bad[0]}'


def _check_path(item, rep, eng):
    recipe, sims, variant = item
    name = recipe[1]['name'] if recipe[0] == 'nl' else recipe[1]
    try:
        c = netlist.from_recipe(recipe)
    except Exception as e:
        rep.error(f'cannot build {name}: {type(e).__name__}: {e}')
        return
    try:
        s, ins, obl = run_symbolic(c, sims, variant)
    except Exception as e:
        # the real code raised while running on symbolic values: confirm on concrete zeros
        ok, key, what = classify(recipe, sims, variant, {})
        if ok and key.startswith('exception='):
            rep.violation(f'{key}@{name}/{variant}', what, {'recipe': recipe, 'sims': sims, 'variant': variant, 'in_bytes': []})
        else:
            # the code under test does something the lane values cannot follow: concrete stimuli instead (not a solver verdict - said so)
            import random
            rng = random.Random(f'{name}/{variant}')
            c0 = netlist.from_recipe(recipe); s0 = LogicSim(c0, sims, m=2)
            for _ in range(24):
                mb = {(i, 0, b): rng.choice((0, 255, rng.randrange(256))) for i in range(s0.s_len) for b in range(s0.c.shape[-1])}
                ok, key, what = classify(recipe, sims, variant, mb)
                rep.counts['concrete_fallback_runs'] += 1
                if ok:
                    rep.violation(f'{key}@{name}/{variant}' if key.startswith('exception=') else key, what + ' (concrete stimulus; the symbolic run was not possible)',
                                  {'recipe': recipe, 'sims': sims, 'variant': variant, 'in_bytes': [[list(k), v] for k, v in mb.items() if v]})
                    return
            rep.error(f'symbolic run failed on {name}/{variant}: {type(e).__name__}: {e} (24 concrete stimuli show no mismatch)')
        return
    rep.counts['circuits'] += 1
    rep.counts['obligations'] += len(obl)
    rep.counts['ops'] += len(s.ops)
    q = lanes.Q(rep, eng=eng)
    diffs = [((a ^ b) & m) != 0 for (_, _, _, a, b, m) in obl if m]
    if not diffs:
        rep.counts['vacuous_items'] += 1
        return
    # reachability twin: the obligation set must be refutable in principle (some output can differ from a fresh variable)
    r = q.check(z3.Or(diffs))
    if r == z3.unsat:
        rep.counts['discharged'] += len(obl)
        rep.sample({'circuit': name, 'style': recipe[2] if recipe[0] == 'nl' else 'file', 'sims': sims, 'variant': variant, 'ops': len(s.ops),
                    'obligations': len(obl), 'verdict': 'unsat'})
    elif r == z3.sat:
        mb = lanes.model_bytes(q.model(), ins)
        ok, key, what = classify(recipe, sims, variant, mb)
        if ok:
            rep.violation(key, what, {'recipe': recipe, 'sims': sims, 'variant': variant, 'in_bytes': [[list(k), v] for k, v in mb.items() if v]})
        else:
            rep.error(f'counterexample on {name}/{variant} does not replay on the real code (model error)')
    else:
        rep.error(f'solver returned unknown on {name}/{variant}')
    return


def check_item(item):
    """one exploration per item: the real simulator normally has a single path; data-dependent fast paths fork (E2)"""
    rep = common.Report()
    lanes.explore(lambda eng: _check_path(item, rep, eng), rep)
    return rep

def twin(rep):
    """vacuity guard: the same pipeline must report a mismatch when the oracle is deliberately wrong (AND2 vs OR2)."""
    nl = netlist.NL('twin', [('a', 'in'), ('b', 'in'), ('z', 'out')], [('g', 'AND2', ['z'], ['a', 'b'])])
    c = netlist.build(nl, 'verilog')
    refuted = []

    def fn(eng):
        s = LogicSim(c, 3, m=2)
        ins = lanes.symbolize(s)
        lanes.simulate(s)
        q = lanes.Q(rep, eng=eng)
        wrong = ins[(0, 0, 0)] | ins[(1, 0, 0)]
        refuted.append(q.check(((s.s[1, 2, 0, 0] ^ wrong) & 7) != 0) == z3.sat)
    lanes.explore(fn, rep)
    if not any(refuted): rep.error('reachability twin failed: wrong oracle not refuted')
    rep.counts['twins'] += 1


def replay(data):
    in_bytes = {tuple(k): v for k, v in data['in_bytes']}
    ok, key, what = classify(data['recipe'], data['sims'], data['variant'], in_bytes)
    return ok, what


def run(tier, seed):
    items = corpus(tier, seed)
    rep = common.pmap(check_item, items, chunksize=4)
    twin(rep)
    cov = {
        'states': int(rep.counts['circuits']), 'transitions': int(rep.counts['ops']),
        'traces_validated_against_impl': len(rep.violations),
        'obligations': int(rep.counts['obligations']), 'discharged': int(rep.counts['discharged']),
        'explanation': 'states = (circuit, style, sims, variant) instances run symbolically through the real LogicSim (one path each); '
                       'transitions = primitive ops executed symbolically; every obligation "captured value == ref2 for all stimuli of all lanes" is one z3 query per instance',
        'functions_encoded': common.fn_sha(LogicSim.s_to_c, LogicSim.c_prop, LogicSim.c_to_s, LogicSim.s_ppo_to_ppi, LogicSim.cycle,
                                           logic_sim._prop_cpu, ksim.SimOps.__init__, kcircuit.Circuit.topological_order),
        'bounds': {'sims': [1, 3, 8, 9, 17], 'cycles': [1, 2, 3], 'g3_random_circuits': 40 if tier == 'quick' else 1200,
                   'g3_limits': 'inputs<=6 gates<=14 dff<=3 latch<=1 depth<=6', 'styles': ['bench', 'verilog', 'lean', 'vbf (branch forks)']},
        'exhaustive': False,
        'summary': f'{rep.counts["circuits"]} instances, {rep.counts["obligations"]} obligations, {rep.counts["discharged"]} discharged',
    }
    return LEVEL, rep, cov, ASSUME
