"""C14 - every SDF delay lands on the right line, polarity and dataset - none is lost.
Stage 1 (text -> IR): rendered SDF files (entry order, CELL block grouping incl. repeated blocks per instance and several anonymous
  blocks, edge qualifiers, one/two value lists, empty triples, escaped names, both branchforks settings); every numeric literal is a unique tag.
Stage 2 (IR -> array, E2 + numpy shim): the tags are replaced by fresh symbolic reals and the real DelayFile.iopaths()/interconnects()
  run on them; z3 decides entry-wise equality with the ground truth [dataset, line feeding the pin, in-polarity, out-polarity] for all values."""
import itertools
import random

import numpy as np
import z3

from kyupy import sdf, verilog, techlib

from vlib import common
from vlib.engine import Engine, T, EngineUnknown

LEVEL = 'model_checking'
ASSUME = [
    'circuits and SDF texts enumerated by the renderer in this file (ground truth); all delay values symbolic reals (also 0, which exercises the all-zero skip)',
    'np.zeros inside sdf.py is shimmed to an object array during the symbolic run; np.moveaxis is real numpy',
    'INTERCONNECT entries are rendered inside anonymous (INSTANCE) blocks and only between pins joined by a branch fork or a sole line (other cases cannot be annotated by design)',
    'TIMINGCHECK, PATHPULSE, conditional paths: ignored by the grammar by design, outside the claim',
]

CIRCUITS = {
    'c1': ('SAED90', '''module c1 (a, b, z, y, w); input a, b; output z, y, w; wire x;
             AND2X1 g1 (.IN1(a), .IN2(b), .Q(x)); INVX1 g2 (.INP(x), .ZN(z)); XOR2X1 \\g[3] (.IN1(x), .IN2(a), .Q(y)); NAND2X1 g_3_ (.IN1(x), .IN2(b), .QN(w)); endmodule''',
           {'g1': ('AND2X1', ['IN1', 'IN2'], 'Q'), 'g2': ('INVX1', ['INP'], 'ZN'), 'g[3]': ('XOR2X1', ['IN1', 'IN2'], 'Q'), 'g_3_': ('NAND2X1', ['IN1', 'IN2'], 'QN')}),      # g[3] and g_3_ are different instances
    'c2': ('NANGATE', '''module c2 (a, b, c, z); input a, b, c; output z; wire n1, n2;
             NAND2_X1 u1 (.A1(a), .A2(b), .ZN(n1)); NOR2_X1 u2 (.A1(n1), .A2(c), .ZN(n2)); MUX2_X1 u3 (.A(n2), .B(n1), .S(c), .Z(z)); endmodule''',
           {'u1': ('NAND2_X1', ['A1', 'A2'], 'ZN'), 'u2': ('NOR2_X1', ['A1', 'A2'], 'ZN'), 'u3': ('MUX2_X1', ['A', 'B', 'S'], 'Z')}),
    # second outputs (QN, C1) feeding one-input cells; an open input pin that the SDF block lists before the connected ones
    'c3': ('SAED90', '''module c3 (a, b, ck, z, y, w); input a, b, ck; output z, y, w; wire q, qn, s, c1;
             DFFX1 ff (.D(a), .CLK(ck), .Q(q), .QN(qn)); INVX1 i1 (.INP(qn), .ZN(z)); HADDX1 ha (.A0(q), .B0(b), .SO(s), .C1(c1));
             INVX1 i2 (.INP(c1), .ZN(y)); AND3X1 g (.IN1(), .IN2(s), .IN3(b), .Q(w)); endmodule''',
           {'ff': ('DFFX1', ['D', 'CLK'], ('Q', 'QN')), 'i1': ('INVX1', ['INP'], 'ZN'), 'ha': ('HADDX1', ['A0', 'B0'], ('SO', 'C1')),
            'i2': ('INVX1', ['INP'], 'ZN'), 'g': ('AND3X1', ['IN1', 'IN2', 'IN3'], 'Q')}),
}
OPEN = {('c3', 'g', 'IN1')}          # unconnected pins: their entries cannot be annotated (a warning); every other entry still must be


def sdf_name(n): return n.replace('[', '\\[').replace(']', '\\]')


class NPShim:
    def __getattr__(self, n): return getattr(np, n)
    def zeros(self, shape, dtype=None):
        a = np.empty(shape, dtype=object); a[...] = 0
        return a


def gen_entries(cname, rng):
    """ground-truth entries with unique numeric tags"""
    lib, src, cells = CIRCUITS[cname]
    tag = [100]

    def triple(kind):
        if kind == 'empty': return None
        if kind == 'partial':
            tag[0] += 3
            return (tag[0] - 2, None, tag[0])
        tag[0] += 3
        return (tag[0] - 2, tag[0] - 1, tag[0])
    E = []
    for inst, (kind, ins, outs) in cells.items():
        for ip in ins:
            out = outs if isinstance(outs, str) else rng.choice(outs)
            mode = rng.choice(['plain', 'plain', 'edges', 'posonly', 'one-list', 'empty-fall', 'skip'])
            if (cname, inst, ip) in OPEN: mode = rng.choice(['plain', 'edges', 'one-list'])
            if mode == 'skip': continue
            if mode == 'edges':
                E.append(('iopath', inst, ip, 'posedge', out, triple('full'), triple('full')))
                E.append(('iopath', inst, ip, 'negedge', out, triple('full'), triple('full')))
            elif mode == 'posonly': E.append(('iopath', inst, ip, 'posedge', out, triple('full'), triple('full')))
            elif mode == 'one-list': E.append(('iopath', inst, ip, None, out, triple('full'), 'same'))
            elif mode == 'empty-fall': E.append(('iopath', inst, ip, None, out, triple('full'), triple('empty')))
            else: E.append(('iopath', inst, ip, None, out, triple('full'), triple(rng.choice(['full', 'partial']))))
    return E


def interconnect_candidates(c, cells, lib):
    """(orig 'inst/pin', dest 'inst/pin', line index) for every cell-to-cell connection that can carry an interconnect annotation"""
    tl = getattr(techlib, lib)
    out = []
    for inst, (kind, ins, opin) in cells.items():
        for ip in ins:
            cell = c.cells[inst]
            l = cell.ins[tl.pin_index(kind, ip)]
            if l is None: continue
            f = l.driver
            if f.kind != '__fork__' or len([o for o in f.outs if o is not None]) != 1: continue
            up = f.ins[0]
            root, rl = up.driver, up
            while root.kind == '__fork__' and len(root.ins) > 0: root, rl = root.ins[0].driver, root.ins[0]
            if root.name not in cells: continue                       # driven by a port, not a cell
            outs = cells[root.name][2]
            opin = outs if isinstance(outs, str) else [o for o in outs if tl.pin_index(root.kind, o) == rl.driver_pin][0]
            out.append((f'{root.name}/{opin}', f'{inst}/{ip}', up.index))
    return out


def render(cname, E, I, grouping, igroup, rng, subst=None):
    subst = subst or {}
    design = rng.choice([cname, next(iter(CIRCUITS[cname][2]))])          # the design header may coincide with an instance name - it names nothing inside the file
    lines = ['(DELAYFILE', ' (SDFVERSION "3.0")', f' (DESIGN "{sdf_name(design)}")', ' (DIVIDER /)', ' (TIMESCALE 1ns)']

    def tr(t):
        if t is None: return '()'
        return '(' + ':'.join('' if v is None else f'{subst.get(v, v / 1000):.3f}' for v in t) + ')'

    def iop(e):
        _, inst, ip, edge, out, r, f = e
        pin = f'({edge} {ip})' if edge else ip
        return f'(IOPATH {pin} {out} {tr(r)}' + ('' if f == 'same' else f' {tr(f)}') + ')'
    blocks = []
    if grouping == 'per-instance':
        for inst in dict.fromkeys(e[1] for e in E):
            blocks.append((inst, [iop(e) for e in E if e[1] == inst]))
    elif grouping == 'per-entry':
        for e in E: blocks.append((e[1], [iop(e)]))
    else:   # halves: the entries of an instance are split over two blocks, blocks of different instances interleaved
        first, second = [], []
        for inst in dict.fromkeys(e[1] for e in E):
            es = [e for e in E if e[1] == inst]
            h = (len(es) + 1) // 2
            first.append((inst, [iop(e) for e in es[:h]]))
            if es[h:]: second.append((inst, [iop(e) for e in es[h:]]))
        blocks = first + second
    iblocks = []
    ic = [f'(INTERCONNECT {sdf_name(o)} {sdf_name(d)} {tr(r)} {tr(f)})' for o, d, _, r, f in I]
    if igroup in ('single', 'single-first'):
        if ic: iblocks.append(ic)
    elif igroup == 'split': iblocks = [[x] for x in ic]
    else:
        h = (len(ic) + 1) // 2
        iblocks = [b for b in (ic[:h], ic[h:]) if b]
    allb = [('cell', b) for b in blocks] + [('ic', b) for b in iblocks]
    if igroup == 'single-first': allb = [('ic', b) for b in iblocks] + [('cell', b) for b in blocks]
    else: rng.shuffle(allb)
    kinds = {i: k for i, (k, _, _) in CIRCUITS[cname][2].items()}

    def delay_sections(ents):
        # one CELL block may carry its entries in several DELAY sections, with a TIMINGCHECK section anywhere in between
        cut = rng.randrange(1, len(ents)) if len(ents) > 1 and rng.random() < 0.5 else len(ents)
        lines.append('  (DELAY (ABSOLUTE ' + '\n    '.join(ents[:cut]) + '))')
        if rng.random() < 0.3: lines.append('  (TIMINGCHECK (SETUP D (posedge CK) (0.1:0.1:0.1)))')
        if ents[cut:]: lines.append('  (DELAY (ABSOLUTE ' + '\n    '.join(ents[cut:]) + '))')
    for kind, b in allb:
        if kind == 'cell':
            inst, ents = b
            lines.append(f' (CELL (CELLTYPE "{kinds[inst]}") (INSTANCE {sdf_name(inst)})')
            delay_sections(ents)
            lines.append(' )')
        else:
            lines.append(f' (CELL (CELLTYPE "{cname}") (INSTANCE)')
            delay_sections(b)
            lines.append(' )')
    lines.append(')')
    return '\n'.join(lines) + '\n'


def make(job, subst=None):
    cname, branchforks, grouping, igroup, k, seed = job
    rng = random.Random(f'{seed}/{cname}/{branchforks}/{grouping}/{igroup}/{k}')
    lib, src, cells = CIRCUITS[cname]
    c = verilog.parse(src, tlib=getattr(techlib, lib), branchforks=branchforks)
    E = gen_entries(cname, rng)
    tagc = [5000]

    def tri(p_empty):
        if rng.random() < p_empty: return None
        tagc[0] += 3
        return (tagc[0] - 2, tagc[0] - 1, tagc[0])
    I = []
    for o, d, line in interconnect_candidates(c, cells, lib):
        if rng.random() < 0.75: I.append((o, d, line, tri(0.0), tri(0.2)))
    if igroup == 'none': I = []
    text = render(cname, E, I, grouping, igroup, rng, subst)
    return c, lib, cells, E, I, text


def expected(c, lib, cells, E, I, val):
    """ground truth: {('io'|'ic', dataset, line, ipol, opol): value}; val(tag) -> value object"""
    tl = getattr(techlib, lib)
    X = {}
    for _, inst, ip, edge, out, r, f in E:
        line = c.cells[inst].ins[tl.pin_index(cells[inst][0], ip)]
        if line is None: continue
        line = line.index
        ipols = [0] if edge == 'posedge' else ([1] if edge == 'negedge' else [0, 1])
        for opol, t in ((0, r), (1, r if f == 'same' else f)):
            for d in range(3):
                v = 0 if (t is None or t[d] is None) else val(t[d])
                for ipol in ipols: X[('io', d, line, ipol, opol)] = v
    for o, dd, line, r, f in I:
        for opol, t in ((0, r), (1, f)):
            for d in range(3):
                v = 0 if (t is None or t[d] is None) else val(t[d])
                for ipol in (0, 1): X[('ic', d, line, ipol, opol)] = v
    return X


def symbolise(df, var):
    """replace every numeric literal of the parsed IR by its symbolic value"""
    def conv(lst): return [var(round(x * 1000)) if x != 0.0 else 0.0 for x in lst]
    cells = {}
    for name, ents in df.cells.items():
        cells[name] = [type(e)(e[0], e[1], conv(e[2]), conv(e[3])) for e in ents]
    ic = None if df._interconnects is None else [type(e)(e[0], e[1], conv(e[2]), conv(e[3])) for e in df._interconnects]
    return cells, ic


def check_job(job):
    rep = common.Report()
    cname = job[0]
    try:
        c, lib, cells, E, I, text = make(job)
    except Exception as e:
        rep.error(f'{job}: cannot build case: {type(e).__name__}: {e}'); return rep
    rep.counts['texts'] += 1
    data = {'mode': 'sdf', 'job': list(job)}
    try:
        df = sdf.parse(text)
    except Exception as e:
        rep.violation('parse/exception', f'{job}: sdf.parse raised {type(e).__name__}: {str(e)[:200]}', data); return rep
    found = []
    # the all-zero test in interconnects() forks on value order: one interconnect entry is symbolic per exploration (the others keep
    # their concrete tag values), IOPATH values are symbolic in every exploration
    ictags = [set(x for t in (r, f) if t for x in t if x is not None) for (_, _, _, r, f) in I] or [set()]
    alltags_ic = set().union(*ictags)
    for symset in ictags:
      eng = Engine(deadline_s=300)

      def fn(eng, symset=symset):
        vs = {}

        def var(tag):
            if tag in alltags_ic and tag not in symset: return T.lift(tag / 1000)
            if tag not in vs:
                v = z3.Real(f'v{tag}'); eng.assume(v >= 0, v <= 1000); vs[tag] = v
            return T(0, vs[tag])
        scells, sic = symbolise(df, var)
        allc = dict(scells)
        if sic is not None: allc[None] = sic
        d2 = sdf.DelayFile(df.name, allc)
        old = sdf.np
        sdf.np = NPShim()
        try:
            io = d2.iopaths(c, getattr(techlib, lib))
            ic = d2.interconnects(c, getattr(techlib, lib))
            io_again = d2.iopaths(c, getattr(techlib, lib))          # a parsed file can annotate more than once (e.g. both branch-fork settings)
            ic_again = d2.interconnects(c, getattr(techlib, lib))
        finally:
            sdf.np = old
        X = expected(c, lib, cells, E, I, var)
        bad, neq = None, z3.BoolVal(True)
        for kind, arr in (('io', io), ('ic', ic), ('io', io_again), ('ic', ic_again)):
            if arr.shape != (3, len(c.lines), 2, 2): bad = f'{kind} array shape {arr.shape}'; break
            for idx in np.ndindex(arr.shape):
                want = X.get((kind,) + idx, 0)
                got = arr[idx]
                rep.counts['obligations'] += 1
                gt, wt = T.lift(got) if not isinstance(got, T) else got, T.lift(want) if not isinstance(want, T) else want
                if gt.c == 0 and wt.c == 0 and eng.valid(gt.e == wt.e): rep.counts['discharged'] += 1
                else:
                    which = 'IOPATH' if kind == 'io' else 'INTERCONNECT'
                    bad = f'{which} array entry [dataset {idx[0]}, line {idx[1]}, in-pol {idx[2]}, out-pol {idx[3]}] = {got}, file states {want}'
                    neq = (gt.e != wt.e) if (gt.c == 0 and wt.c == 0) else z3.BoolVal(True)
                    break
            if bad: break
        if bad:
            cons = [v * 8 == z3.Int(f'grid{t}') for t, v in vs.items()]
            mdl = eng.solver.model() if eng.solver.check(neq, *cons) == z3.sat else (eng.solver.model() if eng.solver.check(neq) == z3.sat else eng.model())
            sub = {}
            for t, v in vs.items():
                x = mdl.eval(v, model_completion=True); sub[t] = float(x.numerator_as_long()) / float(x.denominator_as_long())
            found.append((bad, sub))
        return 1
      try: eng.explore(fn)
      except EngineUnknown as e: rep.error(f'{job}: {e}')
      except Exception as e:
          ok, what = replay(data)
          if ok: rep.violation('annotate/exception', f'{job}: {what}', data)
          else: rep.error(f'{job}: symbolic annotation raised {type(e).__name__}: {e}')
      rep.counts['paths'] += eng.npaths; rep.counts['branches'] += eng.nbranches; rep.solver_s += eng.tsolve
    if found:
        data['subst'] = [[t, v] for t, v in found[0][1].items()]
        found = [found[0][0]]
        ok, what = replay(data)
        key = 'lost-entries/repeated-blocks' if job[2] != 'per-instance' or job[3] in ('split', 'halves') else 'annotation'
        if ok: rep.violation(key, f'{cname} branchforks={job[1]} grouping={job[2]}/{job[3]}: {found[0]}; replay: {what}', data)
        else: rep.error(f'{job}: {found[0]} - does not replay')
    elif eng.complete:
        rep.sample({'circuit': cname, 'branchforks': job[1], 'cell grouping': job[2], 'interconnect grouping': job[3], 'iopath entries': len(E), 'interconnect entries': len(I), 'paths': eng.npaths,
                    'text head': text[:200], 'verdict': 'all array entries valid for all delay values'}, limit=2)
    return rep


def replay(data):
    job = tuple(data['job'])
    subst = {int(t): float(v) for t, v in data.get('subst', [])}
    c, lib, cells, E, I, text = make(job, subst)
    try:
        df = sdf.parse(text)
        io = df.iopaths(c, getattr(techlib, lib)); ic = df.interconnects(c, getattr(techlib, lib))
        io2 = df.iopaths(c, getattr(techlib, lib)); ic2 = df.interconnects(c, getattr(techlib, lib))          # second use of the same parsed file
    except Exception as e:
        return True, f'{type(e).__name__}: {e}'
    X = expected(c, lib, cells, E, I, lambda t: subst.get(t, t / 1000))
    for kind, arr in (('io', io), ('ic', ic), ('io (second call)', io2), ('ic (second call)', ic2)):
        for idx in np.ndindex(arr.shape):
            want = X.get((kind[:2],) + idx, 0)
            if abs(float(arr[idx]) - want) > 1e-9:
                return True, f'{"IOPATH" if kind[:2] == "io" else "INTERCONNECT"}{kind[2:]} array entry [dataset {idx[0]}, line {idx[1]}, in-pol {idx[2]}, out-pol {idx[3]}] = {float(arr[idx])}, file states {want}'
    return False, 'ok'


def jobs(tier, seed):
    J = []
    for cname in CIRCUITS:
        for bf in (True, False):
            for grouping in ('per-instance', 'per-entry', 'halves'):
                for igroup in ('single', 'split', 'halves', 'single-first', 'none'):
                    for k in range(1 if tier == 'quick' else 24):
                        J.append((cname, bf, grouping, igroup, k, seed))
    return J


def run(tier, seed):
    J = jobs(tier, seed)
    rep = common.pmap(check_job, J, chunksize=2)
    cov = {
        'states': int(rep.counts['paths']), 'transitions': int(rep.counts['branches']) + int(rep.counts['paths']), 'traces_validated_against_impl': int(rep.counts['texts']),
        'obligations': int(rep.counts['obligations']), 'discharged': int(rep.counts['discharged']), 'rendered_texts': int(rep.counts['texts']),
        'explanation': 'per rendered SDF file: the real parser builds the IR, its literals become symbolic reals, the real iopaths()/interconnects() run on them (forking on the all-zero test) and z3 proves every array entry equal to the ground truth',
        'functions_encoded': common.fn_sha(sdf.DelayFile.iopaths, sdf.DelayFile.interconnects, sdf.SdfTransformer, sdf.DelayFile.__init__),
        'bounds': {'circuits': list(CIRCUITS), 'groupings': '3 cell groupings x 5 interconnect groupings; entries of a block in one or two DELAY sections', 'branchforks': [True, False], 'values': '[0,1000] real'},
        'exhaustive': False,
        'summary': f'{len(J)} rendered files, {rep.counts["paths"]} paths, {rep.counts["obligations"]} obligations, {rep.counts["discharged"]} discharged',
    }
    return LEVEL, rep, cov, ASSUME
