#!/bin/bash
# Builds the overlay virtualenv /verif/.venv (offline): /venv's site-packages (numpy, lark, editable kyupy -> /repo/src)
# plus z3-solver / cvc5 / crosshair-tool from the local wheelhouse.  Idempotent; safe under concurrent invocation.
HERE="$(cd "$(dirname "${BASH_SOURCE[0]}")" && pwd)"
cd "$HERE" || exit 2
export PIP_NO_INDEX=1
ok() { [ -x .venv/bin/python ] && .venv/bin/python -c "import z3, numpy, lark, kyupy" >/dev/null 2>&1; }
ok && exit 0
(
  flock 9
  ok && exit 0
  rm -rf .venv
  /venv/bin/python -m venv .venv || exit 2
  echo "import site; site.addsitedir('/venv/lib/python3.12/site-packages')" > .venv/lib/python3.12/site-packages/_base.pth
  .venv/bin/pip install -q --no-index --find-links /opt/veriftools/wheels z3-solver cvc5 crosshair-tool || exit 2
  ok || exit 2
) 9>.venv.lock
