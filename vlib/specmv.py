"""Oracle spec4/spec8: the documented multi-valued algebra (logic.py module docstring and constant docs) on bit planes.

A value is a tuple of planes (f, i, a): bit0 final, bit1 initial, bit2 activity; per lane.  UNKNOWN/UNASSIGNED = f != i
without activity.  Operators: a controlling constant (plain 0 for AND, plain 1 for OR) wins; otherwise any unknown
operand makes the result unknown; otherwise bitwise on (final, initial) and activity = OR of the operands' activity.
Complex gates are the documented compositions (sim.py comments).  Results are compared modulo the unknown class {X,-}."""
from . import ref2


class AlgMV:
    def __init__(self, zero, ones, m):
        self.z, self.o, self.m = zero, ones, m
        self.zero = (zero, zero, zero)             # plain 0 (unconnected pin)

    def n(self, x): return x ^ self.o

    def unknown(self, v):
        f, i, a = v
        return (f ^ i) & self.n(a) if self.m == 8 else (f ^ i)

    def is0(self, v): return self.n(v[0]) & self.n(v[1]) & self.n(v[2])
    def is1(self, v): return v[0] & v[1] & self.n(v[2])
    X = property(lambda self: (self.o, self.z, self.z))

    def _sel(self, cond, a, b):
        """per lane: cond ? a : b on value tuples"""
        return tuple((cond & x) | (self.n(cond) & y) for x, y in zip(a, b))

    def _act(self, a): return a if self.m == 8 else self.z

    def inv(self, v):
        u = self.unknown(v)
        return self._sel(u, self.X, (self.n(v[0]), self.n(v[1]), self._act(v[2])))

    def buf(self, v): return (v[0], v[1], self._act(v[2]))

    def _nary(self, vs, op, ctrl_is, ctrl_val):
        f, i, a = vs[0]
        anyu, anyc = self.unknown(vs[0]), ctrl_is(vs[0])
        for v in vs[1:]:
            f, i, a = op(f, v[0]), op(i, v[1]), a | v[2]
            anyu, anyc = anyu | self.unknown(v), anyc | ctrl_is(v)
        r = self._sel(anyu, self.X, (f, i, self._act(a)))
        return self._sel(anyc, ctrl_val, r)

    def and_(self, *vs): return self._nary(vs, lambda x, y: x & y, self.is0, (self.z, self.z, self.z))
    def or_(self, *vs): return self._nary(vs, lambda x, y: x | y, self.is1, (self.o, self.o, self.z))
    def xor_(self, *vs): return self._nary(vs, lambda x, y: x ^ y, lambda v: self.z, (self.z, self.z, self.z))

    def prim(self, kind, ins):
        c = ref2.classify(kind)
        if c is None: raise KeyError(kind)
        fam, ar, inv = c
        if ar is None:
            hi = max([k for k, v in enumerate(ins) if v is not None], default=-1)
            ar = ref2.explicit_arity(kind)
            if ar is None or ref2.SIZED_BY_CONNECTION: ar = max(2, hi + 1)
        v = [(ins[k] if k < len(ins) and ins[k] is not None else self.zero) for k in range(ar)]
        if fam == 'buf': r = self.buf(v[0])
        elif fam == 'and': r = self.and_(*v)
        elif fam == 'or': r = self.or_(*v)
        elif fam == 'xor': r = self.xor_(*v)
        elif fam == 'ao21': r = self.or_(self.and_(v[0], v[1]), v[2])
        elif fam == 'oa21': r = self.and_(self.or_(v[0], v[1]), v[2])
        elif fam == 'ao22': r = self.or_(self.and_(v[0], v[1]), self.and_(v[2], v[3]))
        elif fam == 'oa22': r = self.and_(self.or_(v[0], v[1]), self.or_(v[2], v[3]))
        elif fam == 'ao211': r = self.or_(self.and_(v[0], v[1]), v[2], v[3])
        elif fam == 'oa211': r = self.and_(self.or_(v[0], v[1]), v[2], v[3])
        elif fam == 'mux21': r = self.or_(self.and_(v[0], self.inv(v[2])), self.and_(v[1], v[2]))
        else: raise KeyError(fam)
        return self.inv(r) if inv else r

    def same(self, x, y):
        """lane mask where x and y denote the same value modulo the unknown class"""
        ux, uy = self.unknown(x), self.unknown(y)
        eq = self.n(x[0] ^ y[0]) & self.n(x[1] ^ y[1])
        if self.m == 8: eq = eq & self.n(x[2] ^ y[2])
        return (ux & uy) | (self.n(ux) & self.n(uy) & eq)
