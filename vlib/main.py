"""vcheck dispatcher:  python -m vlib.main <ID> --tier quick|thorough [--replay path] [--selftest]"""
import argparse
import importlib
import json
import os
import sys
import time
import traceback

from . import common


def main():
    ap = argparse.ArgumentParser()
    ap.add_argument('pid')
    ap.add_argument('--tier', default=os.environ.get('VERIF_TIER', 'quick'), choices=['quick', 'thorough'])
    ap.add_argument('--replay')
    ap.add_argument('--selftest', action='store_true')
    a = ap.parse_args()
    pid = a.pid.upper()
    try: seed = int(os.environ.get('VERIF_SEED', '0'))
    except ValueError: seed = 0
    common.silence_kyupy()
    try:
        mod = importlib.import_module(f'checks.{pid.lower()}')
    except ImportError:
        print(f'no check for {pid}: {traceback.format_exc()}', file=sys.stderr)
        return 2
    if a.replay:
        with open(a.replay) as f: data = json.load(f)
        ok, detail = mod.replay(data['replay'])
        print(f'replay {a.replay}: {"REPRODUCED" if ok else "not reproduced"}: {detail}')
        if ok: print(f'VIOLATION property={pid} replay={a.replay}')
        return 1 if ok else 0
    if a.selftest:
        from . import canary
        return canary.selftest(pid, mod)
    t0 = time.time()
    try:
        level, rep, coverage, assumptions = mod.run(a.tier, seed)
    except Exception:
        print(f'HARNESS-ERROR property={pid}: {traceback.format_exc()}', file=sys.stderr)
        return 2
    rc = common.finish(pid, a.tier, seed, level, rep, t0, coverage, assumptions)
    q = coverage.get('summary', '')
    print(f'{pid} tier={a.tier} exit={rc} wall={time.time()-t0:.1f}s {q}')
    return rc


if __name__ == '__main__':
    sys.exit(main())
