"""E2 - `symx`: a forking re-execution engine (dynamic symbolic execution) for data-dependent kyupy code.

Value classes overload Python operators; every comparison that needs a truth value calls Engine.branch(cond):
both polarities are checked with the incremental z3 solver, infeasible ones are pruned, the alternative is
pushed on a work stack and the function under test is re-executed from the start along the recorded decision
prefix.  At the end of a path the harness asks z3 whether  path-condition AND NOT property  is satisfiable.

The value classes survive numpy object arrays (`__array_ufunc__ = None` makes numpy scalars defer to them),
C-level bisect/min/max/sorted and np.choose / np.putmask."""
import time
from fractions import Fraction

import numpy as np
import z3


class Infeasible(BaseException):
    pass


class EngineUnknown(Exception):
    """solver answered unknown / budget exhausted: the obligation is inconclusive (harness exit 2, never a violation)"""


ENG = None


class Engine:
    def __init__(self, timeout_ms=30000, max_paths=10 ** 7, deadline_s=None):
        global ENG
        self.solver = z3.Solver()
        self.solver.set('timeout', timeout_ms)
        self.nchecks = 0
        self.npaths = 0
        self.nbranches = 0
        self.tsolve = 0.0
        self.max_paths = max_paths
        self.deadline = (time.time() + deadline_s) if deadline_s else None
        self.complete = False
        self.failed_claim = None
        ENG = self

    def check(self, *extra):
        self.nchecks += 1
        t = time.time()
        r = self.solver.check(*extra)
        self.tsolve += time.time() - t
        if r == z3.unknown: raise EngineUnknown(f'z3 unknown: {self.solver.reason_unknown()}')
        return r

    def valid(self, claim):
        ok = self.check(z3.Not(claim)) == z3.unsat
        if not ok and self.failed_claim is None: self.failed_claim = z3.Not(claim)     # counterexample models must satisfy it
        return ok

    def model(self):
        r = self.check()
        assert r == z3.sat
        return self.solver.model()

    def explore(self, fn, setup=None, start=None):
        """fn(engine) is executed once per feasible path; returns list of fn's return values.
        start: decision prefix to explore below (work splitting)."""
        global ENG
        ENG = self
        results = []
        stack = [list(start or [])]
        while stack:
            if self.npaths >= self.max_paths or (self.deadline and time.time() > self.deadline):
                raise EngineUnknown(f'path budget exhausted after {self.npaths} paths')
            prefix = stack.pop()
            self.log = list(prefix)
            self.pos = 0
            self.stack = stack
            self.solver.push()
            self.failed_claim = None
            try:
                r = fn(self)
                self.npaths += 1
                results.append(r)
            except Infeasible:
                pass
            finally:
                self.solver.pop()
        self.complete = True
        return results

    def assume(self, *conds):
        for c in conds: self.solver.add(c)

    def branch(self, cond):
        if isinstance(cond, bool): return cond
        cond = z3.simplify(cond)
        if z3.is_true(cond): return True
        if z3.is_false(cond): return False
        if self.pos < len(self.log):
            d = self.log[self.pos]
            self.pos += 1
            self.solver.add(cond if d else z3.Not(cond))
            return d
        can_t = self.check(cond) == z3.sat
        can_f = self.check(z3.Not(cond)) == z3.sat
        if can_t and can_f:
            self.stack.append(self.log + [False])
            self.nbranches += 1
            d = True
        elif can_t: d = True
        elif can_f: d = False
        else: raise Infeasible()
        self.log.append(d)
        self.pos += 1
        self.solver.add(cond if d else z3.Not(cond))
        return d

    def choose(self, n, name='choice'):
        """unconstrained choice integer in [0, n): forks into every value (bounded exhaustive exploration; no solver call needed)."""
        if n <= 1: return 0
        if self.pos < len(self.log):
            d = self.log[self.pos]
            self.pos += 1
            return d
        for k in range(n - 1, 0, -1): self.stack.append(self.log + [k])
        self.nbranches += n - 1
        self.log.append(0)
        self.pos += 1
        return 0

    def pick(self, var, lo, hi):
        """constrained symbolic integer: concretise by forking over its feasible values in [lo, hi) (solver decides feasibility)."""
        for k in range(lo, hi):
            if self.branch(var == k): return k
        raise Infeasible()


# ---------------------------------------------------------------------------------------------------- time values

H = Fraction(2) ** 127
_TMAX = float(2 ** 127)
_TMAX_OVL = float(np.float32(1.1 * 2 ** 127))


def _coef(x):
    x = float(x)
    if x == _TMAX: return (Fraction(1), None)
    if x == -_TMAX: return (Fraction(-1), None)
    if x == _TMAX_OVL: return (Fraction(11, 10), None)
    if not abs(x) < 2 ** 40: raise ValueError(f'float {x} outside the T model')
    return (Fraction(0), z3.RealVal(Fraction(x)))


class T:
    """time value  c*2^127 + e :  c in {-1 (TMIN), 0 (finite), 1 (TMAX), 1.1 (TMAX_OVL), sums thereof} concrete,
    e a z3 Real; a non-zero c absorbs e (float lemma F1)."""
    __slots__ = ('c', 'e')
    __array_ufunc__ = None
    __hash__ = None

    def __init__(self, c, e=None):
        self.c = Fraction(c)
        self.e = (e if e is not None else z3.RealVal(0)) if self.c == 0 else None

    @staticmethod
    def lift(x):
        if isinstance(x, T): return x
        c, e = _coef(x)
        return T(c, e)

    def __add__(self, o):
        o = T.lift(o)
        c = self.c + o.c
        if c != 0: return T(c)
        if self.c == 0: return T(0, self.e + o.e)
        return T(0, z3.RealVal(0))
    __radd__ = __add__

    def __neg__(self): return T(-self.c, None if self.c != 0 else -self.e)
    def __sub__(self, o): return self + (-T.lift(o))
    def __rsub__(self, o): return T.lift(o) + (-self)

    def _cmp(self, o, op):
        o = T.lift(o)
        if self.c != o.c or self.c != 0:
            a, b = self.c, o.c
            return {'lt': a < b, 'le': a <= b, 'eq': a == b, 'gt': a > b, 'ge': a >= b, 'ne': a != b}[op]
        a, b = self.e, o.e
        return ENG.branch({'lt': a < b, 'le': a <= b, 'eq': a == b, 'gt': a > b, 'ge': a >= b, 'ne': a != b}[op])

    def __lt__(self, o): return self._cmp(o, 'lt')
    def __le__(self, o): return self._cmp(o, 'le')
    def __gt__(self, o): return self._cmp(o, 'gt')
    def __ge__(self, o): return self._cmp(o, 'ge')
    def __eq__(self, o): return self._cmp(o, 'eq')
    def __ne__(self, o): return self._cmp(o, 'ne')
    def __bool__(self): return True if self.c != 0 else ENG.branch(self.e != 0)          # truthiness of a float: 0.0 is falsy (`time or default`)
    def __repr__(self): return f'T({self.c},{self.e})'

    def concrete(self, model):
        """float32-exact value under a model (finite part must be representable - checked by caller)"""
        if self.c == 1: return _TMAX
        if self.c == -1: return -_TMAX
        if self.c == Fraction(11, 10): return _TMAX_OVL
        if self.c != 0: return float(self.c) * _TMAX
        v = model.eval(self.e, model_completion=True)
        return float(Fraction(v.numerator_as_long(), v.denominator_as_long()))


def lift_T(a):
    o = np.empty(np.shape(a), dtype=object)
    a = np.asarray(a)
    for idx in np.ndindex(a.shape): o[idx] = T.lift(a[idx])
    return o


# ---------------------------------------------------------------------------------------------------- integers

class SI:
    """symbolic (mathematical) integer - Python/numpy int sizes, weights, coordinates"""
    __slots__ = ('e',)
    __array_ufunc__ = None
    __hash__ = None

    def __init__(self, e): self.e = e if z3.is_expr(e) else z3.IntVal(int(e))

    @staticmethod
    def ex(x): return x.e if isinstance(x, SI) else z3.IntVal(int(x))

    def __add__(self, o): return SI(self.e + SI.ex(o))
    __radd__ = __add__
    def __sub__(self, o): return SI(self.e - SI.ex(o))
    def __rsub__(self, o): return SI(SI.ex(o) - self.e)
    def __mul__(self, o): return SI(self.e * SI.ex(o))
    __rmul__ = __mul__
    def __neg__(self): return SI(-self.e)
    def _c(self, o, f): return ENG.branch(f(self.e, SI.ex(o)))
    def __eq__(self, o):
        if o is None or isinstance(o, str): return False
        return self._c(o, lambda a, b: a == b)
    def __ne__(self, o):
        if o is None or isinstance(o, str): return True
        return self._c(o, lambda a, b: a != b)
    def __lt__(self, o): return self._c(o, lambda a, b: a < b)
    def __le__(self, o): return self._c(o, lambda a, b: a <= b)
    def __gt__(self, o): return self._c(o, lambda a, b: a > b)
    def __ge__(self, o): return self._c(o, lambda a, b: a >= b)
    def __int__(self): return self
    def __bool__(self): return ENG.branch(self.e != 0)          # truthiness of an int: zero is falsy
    def __repr__(self): return f'SI({self.e})'

    def concrete(self, model): return model.eval(self.e, model_completion=True).as_long()


class BV:
    """symbolic small unsigned value (z3 BitVec) with forking comparisons - logic codes, characters"""
    __array_ufunc__ = None
    __slots__ = ('e',)
    __hash__ = None

    def __init__(self, e): self.e = e

    @staticmethod
    def lift(x, w):
        if isinstance(x, BV): return x.e
        return z3.BitVecVal(int(x), w)

    def _w(self): return self.e.size()
    def _bin(self, o, f): return BV(f(self.e, BV.lift(o, self._w())))
    def __and__(self, o): return self._bin(o, lambda a, b: a & b)
    __rand__ = __and__
    def __or__(self, o): return self._bin(o, lambda a, b: a | b)
    __ror__ = __or__
    def __xor__(self, o): return self._bin(o, lambda a, b: a ^ b)
    __rxor__ = __xor__
    def __invert__(self): return BV(~self.e)
    def __lshift__(self, o): return self._bin(o, lambda a, b: a << b)
    def __rshift__(self, o): return self._bin(o, lambda a, b: z3.LShR(a, b))
    def __eq__(self, o): return ENG.branch(self.e == BV.lift(o, self._w()))
    def __ne__(self, o): return ENG.branch(self.e != BV.lift(o, self._w()))
    def __repr__(self): return f'BV({self.e})'

    def concrete(self, model): return model.eval(self.e, model_completion=True).as_long()


def bv_term(x, w=8):
    return x.e if isinstance(x, BV) else z3.BitVecVal(int(x) & ((1 << w) - 1), w)


class SymDict:
    """dict with symbolic keys: association list, lookups fork on key equality, absent key => real KeyError"""

    def __init__(self): self.items = []

    def _find(self, k):
        for i, (kk, _) in enumerate(self.items):
            if kk == k: return i
        return None

    def __getitem__(self, k):
        i = self._find(k)
        if i is None: raise KeyError(k)
        return self.items[i][1]

    def __setitem__(self, k, v):
        i = self._find(k)
        if i is None: self.items.append((k, v))
        else: self.items[i] = (k, v)

    def __delitem__(self, k):
        i = self._find(k)
        if i is None: raise KeyError(k)
        del self.items[i]

    def __contains__(self, k): return self._find(k) is not None
    def __len__(self): return len(self.items)
    def keys(self): return [k for k, _ in self.items]
