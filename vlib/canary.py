"""Canaries: seeded mutants of kyupy (textual patches and reversed 'fix:' commits) applied to a temporary copy of
/repo/src; the check must report each (exit 1 + VIOLATION).  `./vcheck <ID> --selftest`.  Never part of a registered command."""
import json
import os
import shutil
import subprocess
import sys
import tempfile

from . import common

# (name, file relative to src/kyupy, old text, new text)
MUTANTS = {
    'C01': [('nand3-as-and3', 'logic_sim.py', "elif op == sim.NAND3: c[o0] = ~(c[i0] & c[i1] & c[i2])", "elif op == sim.NAND3: c[o0] = (c[i0] & c[i1] & c[i2])"),
            ('dff-qn-not-inverted', 'sim.py', "ops.append((INV1, n.outs[1].index, inp_idx", "ops.append((BUF1, n.outs[1].index, inp_idx"),
            ('arity-selection', 'sim.py', "                        if i2_idx == self.zero_idx:\n                            sp = prims[2]", "                        if i2_idx == self.zero_idx and False:\n                            sp = prims[2]"),
            ('cb-path-mux', 'logic_sim.py', "elif op == sim.MUX21: self.c[o0] = (self.c[i0] & ~self.c[i2]) | (self.c[i1] & self.c[i2])", "elif op == sim.MUX21: self.c[o0] = (self.c[i1] & ~self.c[i2]) | (self.c[i0] & self.c[i2])")],
    'C02': [('and8-activity', 'logic.py', "out[..., 2, :] |= inp[..., 2, :] & (~any_unknown | any_zero) & ~any_zero", "out[..., 2, :] |= inp[..., 2, :] & ~any_unknown"),
            ('or4-unknown', 'logic.py', "        out[..., 1, :] |= inp[..., 1, :] & (~any_unknown | any_one)\n    return out\n\n\ndef bp8v_or", "        out[..., 1, :] |= inp[..., 1, :]\n    return out\n\n\ndef bp8v_or"),
            ('mux8-scratch', 'logic_sim.py', "                    logic.bp8v_not(self.c[t1], self.c[i2])\n                    logic.bp8v_and(self.c[t0], self.c[i0], self.c[t1])", "                    logic.bp8v_not(self.c[t0], self.c[i2])\n                    logic.bp8v_and(self.c[t0], self.c[i0], self.c[t0])")],
    'C12': [('mv-xor-activity', 'logic.py', "        np.bitwise_or(out, inp & 0b100, out=out)\n    np.putmask(out, any_unknown, UNKNOWN)", "    np.putmask(out, any_unknown, UNKNOWN)"),
            ('mv-not-unassigned', 'logic.py', "    np.putmask(out, (inp == UNKNOWN), UNKNOWN)  # restore UNKNOWN", "    pass")],
    'C16': [('cb2-copy', 'logic_sim.py', "                    if o0_line < len(self.circuit.lines): inject_cb(self.circuit.lines[o0_line], self.c[o0])", "                    if o0_line < len(self.circuit.lines): inject_cb(self.circuit.lines[o0_line], self.c[o0].copy())"),
            ('cb2-before-eval', 'logic_sim.py', "                    if op == sim.BUF1: self.c[o0]=self.c[i0]\n                    elif op == sim.INV1: self.c[o0] = ~self.c[i0]\n                    elif op == sim.AND2: self.c[o0] = self.c[i0] & self.c[i1]\n", "                    if op == sim.BUF1: self.c[o0]=self.c[i0]\n                    elif op == sim.INV1: self.c[o0] = ~self.c[i0]\n                    elif op == sim.AND2: self.c[o0] = self.c[i1] & self.c[i1]\n")],
    'C19': [('oai211-grouping', 'techlib.py', "ZN=OAI211(C1,C2,A,B)", "ZN=OAI211(A,C2,C1,B)"),
            ('mux41-select', 'techlib.py', "A=MUX21(A1,A2,S0) B=MUX21(A3,A4,S0) Y=MUX21(A,B,S1)", "A=MUX21(A1,A2,S1) B=MUX21(A3,A4,S1) Y=MUX21(A,B,S0)"),
            ('out-index', 'techlib.py', "                    pin_dict[n.name] = (o_idx, True)\n                    o_idx += 1", "                    pin_dict[n.name] = (o_idx, True)")],
    'C10': [('elim-reader-pin', 'circuit.py', "            in_line.reader_pin = out_reader_pin\n", "            in_line.reader_pin = in_line.reader_pin if out_reader_pin > 1 else out_reader_pin\n"),
            ('copy-implicit-pins', 'circuit.py', "            Line(c, (d, line.driver_pin), (r, line.reader_pin))", "            Line(c, d, r)"),
            ('setstate-implicit-reader-pin', 'circuit.py', "            Line(self, (self.nodes[driver], driver_pin), (self.nodes[reader], reader_pin))", "            Line(self, (self.nodes[driver], driver_pin), self.nodes[reader])"),
            ('pickle-io-order', 'circuit.py', "        io_nodes = [n.index for n in self.io_nodes]", "        io_nodes = sorted(n.index for n in self.io_nodes)"),
            ('subst-input-fork-pin', 'circuit.py', "                ll.reader_pin = l.reader_pin\n", "                ll.reader_pin = 0\n")],
    'C03': [('ovl-parity', 'wave_sim.py', "                    overflows += 1\n                    previous_t = cbuf[z_mem + z_cur - 1, sim]\n                    z_cur -= 1", "                    overflows += 1\n                    previous_t = cbuf[z_mem + z_cur - 1, sim]"),
            ('cap-off-by-one', 'wave_sim.py', "if z_cur < (z_cap - 1):  # enough space in z_mem?", "if z_cur < z_cap:  # enough space in z_mem?"),
            ('lut-index-c', 'wave_sim.py', "            inputs ^= 4\n", "            inputs ^= 8\n"),
            ('assign-gpu-fall', 'wave_sim.py', "    elif value == 2:\n        c[c_loc, x] = TMIN\n        c[c_loc+1, x] = ttime", "    elif value == 2:\n        c[c_loc, x] = ttime\n        c[c_loc+1, x] = TMAX"),
            ('filter-when-first', 'wave_sim.py', "            if (z_cur == 0                            # it is the first edge in z_mem ...", "            if (False                                 # it is the first edge in z_mem ...")],
    'C04': [('thresh-ge', 'wave_sim.py', "                or (current_t - previous_t) > thresh  # -OR- the generated hazard is wider than pulse threshold.", "                or (current_t - previous_t) >= thresh  # -OR- the generated hazard is wider than pulse threshold."),
            ('drop-forced-emission', 'wave_sim.py', "                or next_t < current_t                 # -OR- the next edge on SAME input is EARLIER (need current edge to filter BOTH in next iteration) ...\n", ""),
            ('abs-time-offset', 'wave_sim.py', "                    cbuf[z_mem + z_cur, sim] = current_t\n", "                    cbuf[z_mem + z_cur, sim] = current_t if current_t > 0 else current_t + current_t\n")],
    'C05': [('or8-activity-mask', 'logic.py', "        out[..., 2, :] |= inp[..., 2, :] & (~any_unknown | any_one) & ~any_one", "        out[..., 2, :] |= inp[..., 2, :] & (~any_unknown | any_one) & ~any_one & ~inp[..., 0, :]"),
            ('xor8-activity', 'logic.py', "        out[..., 2, :] |= inp[..., 2, :]\n    out[..., 0, :] |= any_unknown", "        out[..., 2, :] = inp[..., 2, :]\n    out[..., 0, :] |= any_unknown")],
    'C13': [('nrise-off', 'wave_sim.py', "    nrise = max(0, (z_cur+1) // 2 - (cbuf[z_mem, sim] == TMIN))", "    nrise = max(0, (z_cur+1) // 2)"),
            ('ovl-not-propagated', 'wave_sim.py', "    cbuf[z_mem + z_cur, sim] = TMAX_OVL if overflows > 0 else max(a, b, c, d)", "    cbuf[z_mem + z_cur, sim] = TMAX_OVL if overflows > 0 else TMAX"),
            ('capture-le', 'wave_sim.py', "        if t < time:\n            val ^= 1\n        if t <= TMIN: continue\n        if s_sqrt2 > 0:\n            acc += m * (1 + math.erf((t - time) / s_sqrt2))\n        eat = min(eat, t)\n        lst = max(lst, t)\n        tog += 1\n    if s_sqrt2 > 0:\n        if m < 0:\n            acc += 1\n        if acc >= 0.99:\n            val = 1\n        elif acc > 0.01:\n            seed = (seed << 4) + (vector << 20) + c_loc", "        if t <= time:\n            val ^= 1\n        if t <= TMIN: continue\n        if s_sqrt2 > 0:\n            acc += m * (1 + math.erf((t - time) / s_sqrt2))\n        eat = min(eat, t)\n        lst = max(lst, t)\n        tog += 1\n    if s_sqrt2 > 0:\n        if m < 0:\n            acc += 1\n        if acc >= 0.99:\n            val = 1\n        elif acc > 0.01:\n            seed = (seed << 4) + (vector << 20) + c_loc"),
            ('gpu-lst', 'wave_sim.py', "    s[5, y, vector] = lst", "    s[5, y, vector] = eat"),
            ('acc-weights-swapped', 'wave_sim.py', "                abuf[a_loc, sim] += nrise*a_wr + nfall*a_wf", "                abuf[a_loc, sim] += nrise*a_wf + nfall*a_wr")],
    'C07': [('level-ge', 'sim.py', "if levels[i0_idx] >= current_level or levels[i1_idx] >= current_level or levels[i2_idx] >= current_level or levels[i3_idx] >= current_level:", "if levels[i0_idx] >= current_level or levels[i1_idx] >= current_level or levels[i2_idx] > current_level or levels[i3_idx] >= current_level:"),
            ('level-ignores-stems', 'sim.py', "            i1_idx = stems[op[3]] if stems[op[3]] >= 0 else op[3]\n            i2_idx = stems[op[4]] if stems[op[4]] >= 0 else op[4]\n            i3_idx = stems[op[5]] if stems[op[5]] >= 0 else op[5]\n            if levels", "            i1_idx = op[3]\n            i2_idx = stems[op[4]] if stems[op[4]] >= 0 else op[4]\n            i3_idx = stems[op[5]] if stems[op[5]] >= 0 else op[5]\n            if levels"),
            ('free-inside-level', 'sim.py', "                if ref_count[i0_idx] <= 0: free_set.add(self.c_locs[i0_idx])", "                if ref_count[i0_idx] <= 0 and c_reuse: h.free(self.c_locs[i0_idx])")],
    'C08': [('no-coalesce-next', 'sim.py', "        if released_idx < len(self.released) and loc + size == self.released[released_idx]:  # next chunk is free, merge", "        if False:  # next chunk is free, merge"),
            ('split-wrong-remainder', 'sim.py', "                self.chunks[loc + size] = chunksize - size", "                self.chunks[loc + size] = chunksize"),
            ('hwm-not-updated', 'sim.py', "        self.max_size = max(self.max_size, self.current_size)", "        self.max_size = max(self.max_size, loc)"),
            ('pin-ppo-missing', 'sim.py', "                i0_idx = stems[n.ins[0]] if stems[n.ins[0]] >= 0 else n.ins[0]\n                ref_count[i0_idx] += 1", "                i0_idx = stems[n.ins[0]] if stems[n.ins[0]] >= 0 else n.ins[0]"),
            ('tail-trim-forgets-prev', 'sim.py', "                    del self.chunks[prev]\n                    del self.released[-1]\n                    self.current_size -= chunksize", "                    del self.chunks[prev]\n                    self.current_size -= chunksize")],
    'C06': [('gpu-capture-le', 'wave_sim.py', "        t = c[line + tidx, vector]\n        if t >= TMAX:\n            if t == TMAX_OVL:\n                ovl = 1\n            break\n        m = -m\n        final ^= 1\n        if t < time:", "        t = c[line + tidx, vector]\n        if t >= TMAX:\n            if t == TMAX_OVL:\n                ovl = 1\n            break\n        m = -m\n        final ^= 1\n        if t <= time:"),
            ('dataset-mode1-uses-seed', 'wave_sim.py', "            delays = delays[simctl_int[0]]", "            delays = delays[seed]"),
            ('simctl-lane0', 'wave_sim.py', "nrise, nfall = wave_eval_cpu(op, c, c_locs, c_caps, sim, delays, simctl_int[:, sim], seed)", "nrise, nfall = wave_eval_cpu(op, c, c_locs, c_caps, sim, delays, simctl_int[:, 0], seed)"),
            ('gpu-ppo-to-ppi', 'wave_sim.py', "    s[0, y, x] = s[2, y, x]\n    s[1, y, x] = time\n    s[2, y, x] = s[8, y, x]", "    s[0, y, x] = s[2, y, x]\n    s[1, y, x] = time\n    s[2, y, x] = s[6, y, x]"),
            ('strip-alias-caps', 'sim.py', "                self.c_locs[lidx], self.c_caps[lidx] = self.c_locs[stem], self.c_caps[stem]", "                self.c_locs[lidx], self.c_caps[lidx] = self.c_locs[stem], self.c_caps[lidx]"),
            ('sims-k-off', 'wave_sim.py', "        sims = min(sims or self.sims, self.sims)\n        for op_start, op_stop in zip(self.level_starts, self.level_stops):\n            level_eval_cpu", "        sims = min((sims or self.sims) + 1, self.sims)\n        for op_start, op_stop in zip(self.level_starts, self.level_stops):\n            level_eval_cpu")],
    'C15': [('alias-r', 'logic.py', "    if value in ['R', 'r', '/']: return RISE", "    if value in ['R', '/']: return RISE"),
            ('alias-order', 'logic.py', "    if value in [None, '-', 'Z', 'z']: return UNASSIGNED\n    if value in ['R', 'r', '/']: return RISE\n    if value in ['F', 'f', '\\\\']: return FALL", "    if value in [None, '-', 'Z', 'z']: return UNASSIGNED\n    if value in ['R', 'r', '\\\\']: return RISE\n    if value in ['F', 'f', '/']: return FALL"),
            ('bp-bitorder', 'logic.py', "    return packbits(np.unpackbits(bpa, axis=-1, bitorder='little').swapaxes(-1,-2))", "    return packbits(np.unpackbits(bpa, axis=-1, bitorder='big').swapaxes(-1,-2))"),
            ('pack-sign-pad', 'logic.py', "        a = np.pad(a, p, 'edge') if dtype.name[0] == 'i' else np.pad(a, p, 'constant', constant_values=0)", "        a = np.pad(a, p, 'edge') if dtype.name[0] == 'u' else np.pad(a, p, 'constant', constant_values=0)"),
            ('mvarray-axes', 'logic.py', "    if mva.shape[-2] > 1: return mva.swapaxes(-1, -2)", "    if mva.shape[-2] > 2: return mva.swapaxes(-1, -2)"),
            ('render-order', 'logic.py', "np.array([*'0X-1PRFN'], dtype=np.str_)", "np.array([*'0X-1PFRN'], dtype=np.str_)")],
    'C20': [('via-loc-y', 'def_file.py', "                loc = (loc[0] if p[0] is None else p[0], loc[1] if p[1] is None else p[1])  # if None, keep previous value", "                loc = (loc[0] if p[0] is None else p[0], p[1] if p[1] is not None else loc[0])  # if None, keep previous value"),
            ('array-short', 'def_file.py', "for x in range(x_cnt) for y in range(y_cnt)]", "for x in range(x_cnt) for y in range(max(1, y_cnt - 1))]"),
            ('array-step-swapped', 'def_file.py', "                x_cnt, y_cnt, x_sp, y_sp = param", "                x_cnt, y_cnt, y_sp, x_sp = param"),
            ('comp-orientation', 'def_file.py', "        orientation = args[3].value\n        self.def_file.components[name] = (kind, point, orientation)", "        orientation = args[3].value[-1]\n        self.def_file.components[name] = (kind, point, orientation)"),
            ('pin-placed-xy', 'def_file.py', "        elif opt in ['placed']: val = (args[1][0], args[1][1], args[2].value)", "        elif opt in ['placed']: val = (args[1][1], args[1][0], args[2].value)"),
            ('net-pins-order', 'def_file.py', "    def net_pin(self, args): return '__pin__', (args[0].value, args[1].value)", "    def net_pin(self, args): return '__pin__', (args[1].value, args[0].value)")],
    'C14': [('posedge-pol', 'sdf.py', "                    if i_pin_spec.startswith('(posedge '): i_pol_idxs = [0]", "                    if i_pin_spec.startswith('(posedge '): i_pol_idxs = [1]"),
            ('single-list-both', 'sdf.py', "    if len(args) == 3: args.append(args[2])", "    if len(args) == 3: args.append([])"),
            ('ic-line', 'sdf.py', "            if f1 != f2:  # at least two forks, make sure f2 is a branchfork connected to f1\n                assert len(f2.outs) == 1\n                assert f1.outs[f2.ins[0].driver_pin] == f2.ins[0]\n                line = f2.ins[0]", "            if f1 != f2:  # at least two forks, make sure f2 is a branchfork connected to f1\n                assert len(f2.outs) == 1\n                assert f1.outs[f2.ins[0].driver_pin] == f2.ins[0]\n                line = c2.ins[p2]"),
            ('ic-rf-swapped', 'sdf.py', "            delays[line, :] = delvals", "            delays[line, :] = delvals[::-1]"),
            ('typ-max-swapped', 'sdf.py', "    def triple(args): return [float(a.value[:-1]) if len(a.value) > 1 else 0.0 for a in args]", "    def triple(args): return [float(a.value[:-1]) if len(a.value) > 1 else 0.0 for a in (args[0], args[2], args[1])] if len(args) == 3 else []"),
            ('zero-skip-min', 'sdf.py', "            if max(max(delvals)) == 0: continue", "            if min(max(delvals)) == 0: continue")],
    'C09': [('indexlist-no-reindex', 'circuit.py', "            replacement.index = index\n", ""),
            ('line-remove-no-squeeze', 'circuit.py', "                del self.driver.outs[self.driver_pin]\n                for i, l in enumerate(self.driver.outs): l.driver_pin = i", "                pass"),
            ('node-remove-keeps-name', 'circuit.py', "            if self.kind == '__fork__':\n                del self.circuit.forks[self.name]", "            if self.kind == '__fork__':\n                pass"),
            ('stats-line-count', 'circuit.py', "        stats['__line__'] = len(self.lines)", "        stats['__line__'] = len(self.lines) + len(self.forks) * 0 + (1 if len(self.lines) == 3 else 0)"),
            ('elim-keeps-stale-pin', 'circuit.py', "            in_line.reader.ins[in_line.reader_pin] = in_line", "            in_line.reader.ins[in_line.reader_pin] = in_line if in_line.reader_pin == 0 else None")],
    'C17': [('level-min', 'circuit.py', "                l = level[[l.driver.index for l in n.ins if l is not None]].max() + 1", "                l = level[[l.driver.index for l in n.ins if l is not None]].min() + 1"),
            ('fanin-first-out-only', 'circuit.py', "                for line in n.outs:\n                    if line is not None:\n                        marks[n] |= marks[line.reader]", "                for line in n.outs[:1]:\n                    if line is not None:\n                        marks[n] |= marks[line.reader]"),
            ('locs-string-sort', 'circuit.py', "                path = [m[1]] + [int(v) for v in re.split(r'[_\\[\\]]+', m[2]) if len(v) > 0]", "                path = [m[1]] + [v for v in re.split(r'[_\\[\\]]+', m[2]) if len(v) > 0]"),
            ('rev-latch-not-cut', 'circuit.py', "                if visit_count[pred] == n_outs(pred) and 'dff' not in pred.kind.lower() and 'latch' not in pred.kind.lower():", "                if visit_count[pred] == n_outs(pred) and 'dff' not in pred.kind.lower():"),
            ('line-order-skips-second-output', 'circuit.py', "        for n in self.topological_order():\n            for line in n.outs:\n                if line is not None:\n                    yield line", "        for n in self.topological_order():\n            for line in n.outs[:1] if 'dff' in n.kind.lower() else n.outs:\n                if line is not None:\n                    yield line")],
    'C11': [('range-descending', 'verilog.py', "        return range(left, right+1) if left <= right else range(left, right-1, -1)", "        return range(left, right+1) if left <= right else range(right, left+1)"),
            ('const-bit-order', 'verilog.py', '                l.insert(0, "1\'b1" if (const & 1) else "1\'b0")', '                l.append("1\'b1" if (const & 1) else "1\'b0")'),
            ('reader-pin-implicit', 'verilog.py', "                    Line(c, fork, (n, self.tlib.pin_index(stmt.type, p)))", "                    Line(c, fork, n)"),
            ('escaped-name', 'verilog.py', "        return s[1:-1] if s[0] == '\\\\' else s", "        return s[1:] if s[0] == '\\\\' else s"),
            ('bench-driver-order', 'bench.py', "        for d in drivers: Line(self.c, d, cell)", "        for d in reversed(drivers): Line(self.c, d, cell)"),
            ('port-position', 'verilog.py', "                    if name in positions:\n                        c.io_nodes[positions[name]] = n", "                    if name in positions:\n                        c.io_nodes[len(positions) - 1 - positions[name]] = n"),
            ('concat-order', 'verilog.py', "            if isinstance(a, list):\n                sigs += a", "            if isinstance(a, list):\n                sigs += a[::-1]"),
            ('branchfork-extra-cell', 'verilog.py', '                        branchfork = Node(c, fork.name + "~" + n.name + "/" + p)', '                        branchfork = Node(c, fork.name + "~" + n.name + "/" + p, "BUF1" if p == "S" else "__fork__")')],
    'C18': [('load-order', 'stil.py', "            scan_in_inversion = list(reversed(scan_in_inversion))", "            scan_in_inversion = list(scan_in_inversion)"),
            ('unload-inversion-side', 'stil.py', "                    scan_map.append(intf_pos[n])\n                    scan_out_inversion.append(inversion)", "                    scan_map.append(intf_pos[n])\n                    scan_out_inversion.append(not inversion if len(scan_out_inversion) == 1 else inversion)"),
            ('pi-map-po', 'stil.py', "            tests[pi_map, i] = logic.mvarray(p.capture['_pi'])\n        return tests", "            tests[pi_map[::-1], i] = logic.mvarray(p.capture['_pi'])\n        return tests"),
            ('x-inverted', 'stil.py', "                inversions = np.choose((pattern == logic.UNASSIGNED) | (pattern == logic.UNKNOWN),\n                                       [scan_inversions[si_port], logic.ZERO]).astype(np.uint8)\n                np.bitwise_xor(pattern, inversions, out=pattern)\n                tests[scan_maps[si_port], i] = pattern", "                inversions = np.choose((pattern == logic.UNASSIGNED),\n                                       [scan_inversions[si_port], logic.ZERO]).astype(np.uint8)\n                np.bitwise_xor(pattern, inversions, out=pattern)\n                tests[scan_maps[si_port], i] = pattern"),
            ('loc-transition-swapped', 'stil.py', "        return logic.mv_transition(init, launch)", "        return logic.mv_transition(launch, init)"),
            ('unload-of-next-pattern', 'stil.py', "                if len(capture) > 0:\n                    self.patterns.append(ScanPattern(sload, launch, capture, unload))", "                if len(capture) > 0:\n                    self.patterns.append(ScanPattern(sload, launch, capture, dict(unload) if len(self.patterns) == 0 else self.patterns[-1].unload))")],
}


def fixed_commits(pid):
    return [k for k in common.load_known() if k.get('property') == pid and k.get('status') == 'fixed' and k.get('commit')]


def run_on(srcdir, pid):
    env = dict(os.environ, PYTHONPATH=srcdir, VERIF_EVIDENCE_DIR=os.path.join(srcdir, '_evidence'), VERIF_REPLAY_DIR=os.path.join(srcdir, '_replays'))
    p = subprocess.run([os.path.join(common.ROOT, 'vcheck'), pid, '--tier', 'quick'], env=env, capture_output=True, text=True)
    return p.returncode, [l for l in p.stdout.splitlines() if l.startswith('VIOLATION')], p.stdout[-600:] + p.stderr[-600:]


def selftest(pid, mod=None):
    results = []
    base = tempfile.mkdtemp(prefix='kyupy-canary-')
    try:
        def fresh():
            d = os.path.join(base, 'src')
            shutil.rmtree(d, ignore_errors=True)
            shutil.copytree('/repo/src', d, ignore=shutil.ignore_patterns('__pycache__', '*.egg-info'))
            return d
        for name, f, old, new in MUTANTS.get(pid, []):
            d = fresh()
            p = os.path.join(d, 'kyupy', f)
            s = open(p).read()
            if s.count(old) != 1:
                results.append((name, 'skipped (patch does not apply)')); continue
            open(p, 'w').write(s.replace(old, new))
            rc, v, tail = run_on(d, pid)
            results.append((name, 'detected' if rc == 1 and v else f'MISSED rc={rc} {tail[-300:]}'))
        for k in fixed_commits(pid):
            d = fresh()
            diff = subprocess.run(['git', '-C', '/repo', 'diff', f'{k["commit"]}^', k['commit'], '--', 'src'], capture_output=True, text=True).stdout
            pr = subprocess.run(['patch', '-R', '-p2', '-d', d, '--no-backup-if-mismatch'], input=diff, capture_output=True, text=True)
            if pr.returncode != 0:
                results.append((f'revert-{k["commit"]}', 'skipped (reverse patch does not apply)')); continue
            rc, v, tail = run_on(d, pid)
            results.append((f'revert-{k["commit"]}', 'detected' if rc == 1 and v else f'MISSED rc={rc} {tail[-300:]}'))
    finally:
        shutil.rmtree(base, ignore_errors=True)
    for n, r in results: print(f'canary {pid} {n}: {r}')
    missed = [r for r in results if r[1].startswith('MISSED')]
    print(f'canaries {pid}: {sum(r[1] == "detected" for r in results)} detected, {len(missed)} missed, {sum(r[1].startswith("skipped") for r in results)} skipped')
    return 1 if missed else 0
