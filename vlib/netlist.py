"""Ground-truth netlist descriptions (NL), builders that turn them into kyupy Circuits in several styles, an
independent evaluator, and the deterministic corpus generator (G1 primitives, G2 shapes, G3 random DAGs, G4 repo files)."""
import itertools
import random

from kyupy.circuit import Circuit, Node, Line

from . import ref2

PRIMS33 = ['BUF1', 'INV1', 'AND2', 'AND3', 'AND4', 'NAND2', 'NAND3', 'NAND4', 'OR2', 'OR3', 'OR4', 'NOR2', 'NOR3', 'NOR4',
           'XOR2', 'XOR3', 'XOR4', 'XNOR2', 'XNOR3', 'XNOR4', 'AO21', 'OA21', 'AO22', 'OA22', 'AOI21', 'OAI21', 'AOI22',
           'OAI22', 'AO211', 'OA211', 'AOI211', 'OAI211', 'MUX21']
ALIASES = {'not': 1, 'inv': 1, 'ibuf': 1, 'buf': 1, 'nbuf': 1, 'delln': 1, 'isolor': 2}
CONSTS = ['tieh', 'tiel', '__const0__', '__const1__']
GENERIC = ['and', 'nand', 'or', 'nor', 'xor', 'xnor']


def arity_of(kind):
    c = ref2.classify(kind)
    if c is None: raise KeyError(kind)
    fam, ar, _ = c
    if ar is not None: return ar
    return ref2.explicit_arity(kind)  # None for generic names


class NL:
    """ports: [(signal, 'in'|'out')] in port order; gates: [(name, kind, [out signals|None], [in signals|None])]."""

    def __init__(self, name, ports, gates):
        self.name, self.ports, self.gates = name, [tuple(p) for p in ports], [(g[0], g[1], list(g[2]), list(g[3])) for g in gates]

    def to_json(self): return {'name': self.name, 'ports': self.ports, 'gates': self.gates}

    @staticmethod
    def from_json(d): return NL(d['name'], d['ports'], d['gates'])

    def state_gates(self): return [g for g in self.gates if ref2.is_state(g[1])]

    def s_names(self):
        """position -> ('port', sig) / ('state', gate name) in the documented s_nodes order (needs gate order = node order)."""
        return [('port', p[0], p[1]) for p in self.ports] + [('state', g[0], 'dff') for g in self.gates if ref2.is_dff(g[1])] + \
               [('state', g[0], 'latch') for g in self.gates if ref2.is_latch(g[1])]

    def evaluate(self, in_vals, state_vals, zero, ones):
        """in_vals: {input signal: v}; state_vals: {state gate name: v} -> (signal values, {state gate name: captured D})."""
        sig = dict(in_vals)
        drv = {}
        for g in self.gates:
            for pin, o in enumerate(g[2]):
                if o is not None: drv[o] = (g, pin)

        def val(s):
            if s is None: return zero
            if s in sig: return sig[s]
            g, pin = drv[s]
            if ref2.is_state(g[1]):
                v = state_vals[g[0]]
                v = (v ^ ones) if (ref2.is_dff(g[1]) and pin == 1) else v
            else:
                v = ref2.prim(g[1], [val(i) if i is not None else None for i in g[3]], zero, ones)
            sig[s] = v
            return v
        outs = {p[0]: val(p[0]) for p in self.ports if p[1] == 'out' and (p[0] in drv or p[0] in sig)}
        nxt = {g[0]: val(g[3][0]) for g in self.state_gates() if len(g[3]) > 0 and g[3][0] is not None}
        return outs, nxt


def build(nl, style='bench'):
    """styles: bench (every signal a fork, ports are the forks themselves - like bench.parse),
    verilog ('input'/'output' cells plus a fork per signal - like verilog.parse), lean (verilog + eliminate_1to1_forks),
    bench2 (bench with the node creation order of bench.parse), vbf (verilog plus a branch fork in front of every reader pin - like verilog.parse(branchforks=True): forks fed by forks)."""
    c = Circuit(nl.name)
    forks = {}

    def fork(s):
        if s not in forks: forks[s] = Node(c, s)
        return forks[s]
    if style == 'bench2':
        # node creation order of bench.parse: per statement the cell, its output fork, then input forks on demand - forks get low indices,
        # so removing them moves late nodes (e.g. flip-flops) into the freed positions
        for s, d in nl.ports: c.io_nodes.append(fork(s))
        for name, kind, outs, ins in nl.gates:
            cell = Node(c, name, kind)
            for pin, o in enumerate(outs):
                if o is not None: Line(c, (cell, pin), fork(o))
            for pin, i in enumerate(ins):
                if i is not None: Line(c, fork(i), (cell, pin))
        return c
    if style == 'bench':
        for s, d in nl.ports: c.io_nodes.append(fork(s))
    else:
        for s, d in nl.ports:
            n = Node(c, s, 'input' if d == 'in' else 'output')
            c.io_nodes.append(n)
            if d == 'in': Line(c, n, fork(s))
    cells = {}
    for name, kind, outs, ins in nl.gates:
        cells[name] = Node(c, name, kind)
    for name, kind, outs, ins in nl.gates:
        for pin, o in enumerate(outs):
            if o is not None: Line(c, (cells[name], pin), fork(o))
    def reader(sig, dst, tag):
        if style == 'vbf':
            bf = Node(c, f'{sig}~{tag}')
            Line(c, fork(sig), bf); Line(c, bf, dst)
        else: Line(c, fork(sig), dst)
    for name, kind, outs, ins in nl.gates:
        for pin, i in enumerate(ins):
            if i is not None: reader(i, (cells[name], pin), f'{name}.{pin}')
    if style != 'bench':
        for s, d in nl.ports:
            if d == 'out' and s in forks: reader(s, c.cells[s], 'port')
    if style == 'lean': c.eliminate_1to1_forks()
    return c


def from_recipe(r):
    """recipe -> Circuit.  ('nl', json, style) | ('bench', path) | ('verilog', path, libname, branchforks)."""
    from kyupy import bench, verilog, techlib
    if r[0] == 'nl': return build(NL.from_json(r[1]), r[2])
    if r[0] == 'bench': return bench.load(r[1])
    if r[0] == 'benchtext': return bench.parse(r[1])
    if r[0] in ('verilog', 'verilog-lean'):
        lib = getattr(techlib, r[2])
        c = verilog.load(r[1], tlib=lib, branchforks=bool(r[3]))
        c.resolve_tlib_cells(lib)
        if r[0] == 'verilog-lean': c.eliminate_1to1_forks()          # forks remain only on nets with fan-out
        return c
    raise KeyError(r[0])


# ---------------------------------------------------------------------------------------------------------------- corpus

def g1_sized_trailing_open():
    """explicitly sized AND/NAND/... kinds with trailing pins left open (statement: an open pin reads constant 0)."""
    out = []
    for kind in PRIMS33:
        ar = ref2.explicit_arity(kind)
        if ar is None or ar < 3: continue
        for nopen in range(1, ar - 1):
            ins = [f'i{j}' for j in range(ar - nopen)] + [None] * nopen
            out.append(NL(f'g1s_{kind}_open{nopen}', [(i, 'in') for i in ins if i] + [('z', 'out')], [('g', kind, ['z'], ins)]))
    return out


def g1_primitives():
    """every primitive kind (33 + aliases + generic names) x admitted connected/unconnected pin patterns x output used or not."""
    out = []
    kinds = [(k, arity_of(k)) for k in PRIMS33] + [(k, a) for k, a in ALIASES.items()] + [(k, 0) for k in CONSTS]
    for g in GENERIC:
        for a in (1, 2, 3, 4): kinds.append((g, a))
    for kind, ar in kinds:
        sized = ref2.explicit_arity(kind) is not None
        pats = []
        for pat in itertools.product([True, False], repeat=ar):
            if ar and sized and not pat[-1]: continue      # explicitly sized kind with trailing pin open: ambiguous, excluded
            if not sized and ref2.classify(kind)[1] is None and ar and not pat[-1]: continue   # generic: arity = highest connected pin
            pats.append(pat)
        if not pats: pats = [()]
        for pat in pats:
            for out_used in (True, False):
                ins = [f'i{j}' if p else None for j, p in enumerate(pat)]
                ports = [(f'i{j}', 'in') for j, p in enumerate(pat) if p]
                gates = [('g', kind, ['z'] if out_used else [None], ins)]
                if out_used: ports.append(('z', 'out'))
                else:
                    gates.append(('h', 'BUF1', ['y'], [ports[0][0] if ports else None]))
                    ports.append(('y', 'out'))
                out.append(NL(f'g1_{kind}_{"".join("c" if p else "u" for p in pat)}_{int(out_used)}', ports, gates))
    return out


def g2_shapes():
    S = []
    S.append(NL('reconv', [('a', 'in'), ('b', 'in'), ('c', 'in'), ('z', 'out')],
                [('g1', 'NAND2', ['t1'], ['a', 'b']), ('g2', 'XOR2', ['t2'], ['t1', 'c']), ('g3', 'MUX21', ['z'], ['t1', 't2', 'a'])]))
    S.append(NL('forkchain', [('a', 'in'), ('y0', 'out'), ('y1', 'out'), ('y2', 'out')],
                [('b1', 'BUF1', ['s'], ['a']), ('g0', 'INV1', ['y0'], ['s']), ('g1', 'AND2', ['y1'], ['s', 'a']), ('g2', 'OR2', ['y2'], ['s', 'y1x']),
                 ('g3', 'buf', ['y1x'], ['s'])]))
    S.append(NL('dff_q_qn', [('d', 'in'), ('q', 'out'), ('qn', 'out')], [('f', 'DFF', ['q', 'qn'], ['d', None])]))
    S.append(NL('dff_loop', [('o', 'out')], [('f', 'DFF', ['q', None], ['d', None]), ('g', 'INV1', ['d'], ['q']), ('h', 'BUF1', ['o'], ['q'])]))
    S.append(NL('dff_qn_only', [('a', 'in'), ('o', 'out')], [('f', 'dff', [None, 'qn'], ['a']), ('g', 'AND2', ['o'], ['qn', 'a'])]))
    S.append(NL('toggle2', [('en', 'in'), ('o', 'out')],
                [('f0', 'DFF', ['q0', 'q0n'], ['d0']), ('f1', 'DFF', ['q1', None], ['d1']), ('x0', 'XOR2', ['d0'], ['q0', 'en']),
                 ('a1', 'AND2', ['c0'], ['q0', 'en']), ('x1', 'XOR2', ['d1'], ['q1', 'c0']), ('o1', 'NOR2', ['o'], ['q0n', 'q1'])]))
    # state elements are the last statements, their signals are used by earlier ones (forks with low node indices, flip-flops with the highest)
    S.append(NL('dffs_last', [('a', 'in'), ('o', 'out')], [('x', 'BUF1', ['xs'], ['a']), ('g', 'AND2', ['o'], ['q2', 'q1']), ('f1', 'DFF', ['q1', None], ['xs']), ('f2', 'DFF', ['q2', None], ['q1'])]))
    S.append(NL('dff_no_pins', [('a', 'in'), ('o', 'out'), ('p', 'out')], [('f', 'DFF', ['q', 'qn'], []), ('g', 'dff', ['r', None], [None, 'a']), ('h', 'XOR2', ['o'], ['q', 'a']), ('k', 'NOR2', ['p'], ['qn', 'r'])]))
    S.append(NL('driven_port_2readers', [('x', 'in'), ('y', 'in'), ('a', 'out'), ('p', 'out'), ('q', 'out')],
                [('g0', 'NAND2', ['a'], ['x', 'y']), ('g1', 'INV1', ['p'], ['a']), ('g2', 'AND2', ['q'], ['a', 'x'])]))
    S.append(NL('all4_final', [('a', 'in'), ('b', 'in'), ('c', 'in'), ('d', 'in'), ('o1', 'out'), ('o2', 'out')],
                [('k1', 'tieh', ['one'], []), ('f0', 'DFF', ['q0', 'qn0'], ['n0']), ('f1', 'DFF', ['q1', 'qn1'], ['n1']), ('f2', 'DFF', ['q2', None], ['n2']),
                 ('m0', 'OR2', ['t0'], ['a', None]), ('m1', 'XOR2', ['t1'], ['b', 'q0']), ('m2', 'NAND2', ['t2'], ['c', 'qn1']),
                 ('l0', 'OR4', ['n0'], ['t0', 't1', 'q2', 'd']), ('l1', 'AO22', ['n1'], ['t1', 't2', 'one', 'qn0']), ('l2', 'XOR4', ['n2'], ['t0', 't2', 'q1', 'a']),
                 ('l3', 'OAI22', ['o1'], ['t0', 't1', 't2', 'q0']), ('l4', 'AND4', ['o2'], ['t1', 'q1', 'one', 'd'])]))
    S.append(NL('latch', [('d', 'in'), ('g', 'in'), ('q', 'out')], [('l', 'LATCH', ['q'], ['d', 'g'])]))
    S.append(NL('latch_mix', [('d', 'in'), ('g', 'in'), ('o', 'out')],
                [('l', 'latch', ['ql'], ['x', 'g']), ('f', 'DFF', ['qf', 'qfn'], ['ql']), ('x1', 'XNOR2', ['x'], ['d', 'qfn']), ('o1', 'OAI21', ['o'], ['ql', 'qf', 'd'])]))
    S.append(NL('port_to_port', [('a', 'in'), ('z', 'out')], [('b', 'BUF1', ['z'], ['a'])]))
    S.append(NL('consts', [('a', 'in'), ('z0', 'out'), ('z1', 'out')],
                [('k0', '__const0__', ['c0'], []), ('k1', '__const1__', ['c1'], []), ('g0', 'OR2', ['z0'], ['a', 'c0']), ('g1', 'AND2', ['z1'], ['a', 'c1'])]))
    S.append(NL('unconn_out', [('a', 'in'), ('b', 'in'), ('z', 'out')], [('g0', 'AND2', [None], ['a', 'b']), ('g1', 'OR2', ['z'], ['a', 'b'])]))
    S.append(NL('unconn_mid_pin', [('a', 'in'), ('b', 'in'), ('z', 'out')], [('g0', 'or', ['z'], ['a', None, 'b'])]))
    S.append(NL('unconn_pin0', [('a', 'in'), ('b', 'in'), ('z', 'out'), ('y', 'out')], [('g0', 'XOR2', ['t'], [None, 'a']), ('g1', 'NAND2', ['z'], ['t', 'b']), ('g2', 'BUF1', ['y'], ['b'])]))
    S.append(NL('out_read_internally', [('a', 'in'), ('b', 'in'), ('z', 'out'), ('y', 'out')], [('g0', 'AND2', ['z'], ['a', 'b']), ('g1', 'OR2', ['y'], ['z', 'a'])]))
    S.append(NL('all33', [(f'i{j}', 'in') for j in range(4)] + [(f'o{k}', 'out') for k in range(len(PRIMS33))],
                [(f'g{k}', p, [f'o{k}'], [f'i{j}' for j in range(arity_of(p))]) for k, p in enumerate(PRIMS33)]))
    S.append(NL('deep', [('a', 'in'), ('b', 'in'), ('z', 'out')],
                [('g0', 'NAND2', ['t0'], ['a', 'b']), ('g1', 'NAND2', ['t1'], ['a', 't0']), ('g2', 'NAND2', ['t2'], ['b', 't0']), ('g3', 'NAND2', ['t3'], ['t1', 't2']),
                 ('g4', 'XNOR2', ['t4'], ['t3', 'a']), ('g5', 'AOI211', ['t5'], ['t4', 't3', 't0', 'b']), ('g6', 'OA22', ['z'], ['t5', 't4', 't1', 'a'])]))
    S.append(NL('unused_input', [('a', 'in'), ('b', 'in'), ('z', 'out')], [('g0', 'INV1', ['z'], ['a'])]))
    S.append(NL('undriven_output', [('a', 'in'), ('z', 'out'), ('y', 'out')], [('g0', 'INV1', ['z'], ['a'])]))
    return S


def g3_random(seed, count, max_in=6, max_gates=14, max_dff=3, max_latch=1):
    out = []
    for k in range(count):
        rng = random.Random(f'{seed}/{k}')
        n_in = rng.randint(1, max_in)
        n_g = rng.randint(1, max_gates)
        n_ff = rng.randint(0, max_dff) if rng.random() < 0.6 else 0
        n_la = rng.randint(0, max_latch) if rng.random() < 0.3 else 0
        sigs = [f'i{j}' for j in range(n_in)]
        gates = []
        depth = {s: 0 for s in sigs}
        states = []
        for j in range(n_ff):
            kind = rng.choice(['DFF', 'dff', 'SDFFX'])
            q, qn = f'q{j}', f'qn{j}'
            use = rng.choice([(q, qn), (q, None), (None, qn), (q, qn)])
            states.append([f'ff{j}', kind, list(use), [None, None if rng.random() < 0.5 else 'i0']])
            for s in use:
                if s: sigs.append(s); depth[s] = 0
        for j in range(n_la):
            states.append([f'la{j}', rng.choice(['LATCH', 'latch']), [f'l{j}'], [None, 'i0']])
            sigs.append(f'l{j}'); depth[f'l{j}'] = 0
        for j in range(n_g):
            r = rng.random()
            if r < 0.70: kind = rng.choice(PRIMS33)
            elif r < 0.80: kind = rng.choice(list(ALIASES))
            elif r < 0.84: kind = rng.choice(CONSTS)
            else: kind = rng.choice(GENERIC)
            ar = arity_of(kind)
            if ar is None: ar = rng.randint(1, 4)
            cands = [s for s in sigs if depth[s] < 6]
            ins = [rng.choice(cands) for _ in range(ar)]
            # optionally leave one non-trailing pin unconnected (trailing only for fixed-function kinds)
            if ar >= 2 and rng.random() < 0.12:
                fixed = ref2.classify(kind)[1] is not None and ref2.explicit_arity(kind) is None
                p = rng.randrange(ar if fixed else ar - 1)
                ins[p] = None
            o = f't{j}'
            gates.append([f'g{j}', kind, [o], ins])
            sigs.append(o)
            depth[o] = 1 + max([depth[i] for i in ins if i is not None], default=0)
        for st in states:
            st[3][0] = rng.choice(sigs) if rng.random() < 0.95 else None
        gates = [tuple(s) for s in states] + [tuple(g) for g in gates]
        read = {i for g in gates for i in g[3] if i is not None}
        gate_outs = [g[2][0] for g in gates if not ref2.is_state(g[1])]
        unread = [s for s in gate_outs if s not in read]
        outs = list(unread)
        if outs and rng.random() < 0.3: outs.pop(rng.randrange(len(outs)))      # leaves an unconnected output
        outs += rng.sample(sorted(read & set(gate_outs)), k=min(len(read & set(gate_outs)), rng.randint(0, 2)))   # outputs read internally as well
        if not outs: outs = [gate_outs[-1]]
        # drop the reference of an unread, non-output gate output (-> unconnected output pin)
        gates2 = []
        for g in gates:
            o = list(g[2])
            if not ref2.is_state(g[1]) and o[0] not in read and o[0] not in outs: o = [None]
            gates2.append((g[0], g[1], o, g[3]))
        ports = [(f'i{j}', 'in') for j in range(n_in)] + [(s, 'out') for s in outs]
        rng.shuffle(ports)
        out.append(NL(f'g3_{seed}_{k}', ports, gates2))
    return out


def has_driven_port_fanout(nl):
    read = {i for g in nl.gates for i in g[3] if i is not None}
    return any(d == 'out' and s in read for s, d in nl.ports)


G4 = [('bench', '/repo/tests/b01.bench'), ('verilog', '/repo/tests/b01.v', 'SAED90', 0), ('verilog', '/repo/tests/gates.v', 'SAED90', 0),
      ('verilog', '/repo/tests/gates.v', 'SAED90', 1), ('verilog', '/repo/tests/rng_haltonBase2.synth_yosys.v', 'SAED90', 0)]
G4_LEAN = [('verilog-lean', '/repo/tests/b01.v', 'SAED90', 0), ('verilog-lean', '/repo/tests/rng_haltonBase2.synth_yosys.v', 'SAED90', 0)]
G4_BIG = [('verilog', '/repo/tests/b15_2ig.v.gz', 'SAED32', 0)]
G4_BIG_LEAN = [('verilog-lean', '/repo/tests/b15_2ig.v.gz', 'SAED32', 0)]
