"""Kernel lemmas on the real wave_sim._wave_eval (E2).  One call of the kernel on arbitrary well-formed input
waveforms with symbolic times and delays; the lemma verdicts are decided by z3 at the end of every path."""
import itertools
from fractions import Fraction

import numpy as np
import z3

from kyupy import sim as ksim
from kyupy import wave_sim
from kyupy.wave_sim import TMIN, TMAX, TMAX_OVL

from . import engine
from .engine import Engine, T, EngineUnknown

OVL = Fraction(11, 10)
LUTS = {n: int(getattr(ksim, n)) & 0xffff for n in ['BUF1', 'INV1', 'AND2', 'AND3', 'AND4', 'NAND2', 'NAND3', 'NAND4', 'OR2', 'OR3', 'OR4', 'NOR2', 'NOR3', 'NOR4',
                                                    'XOR2', 'XOR3', 'XOR4', 'XNOR2', 'XNOR3', 'XNOR4', 'AO21', 'OA21', 'AO22', 'OA22', 'AOI21', 'OAI21', 'AOI22',
                                                    'OAI22', 'AO211', 'OA211', 'AOI211', 'OAI211', 'MUX21']}


def lut_arity(name):
    if name in ('BUF1', 'INV1'): return 1
    if name == 'MUX21': return 3
    if name[-3:] == '211': return 4
    if name[-2:] == '22': return 4
    if name[-2:] == '21': return 3
    return int(name[-1])


def lut_fn(name):
    """Boolean function of a primitive, written from the sim.py comments (not from the LUT constant)."""
    from . import ref2
    return lambda bits: int(ref2.prim(name, list(bits), 0, 1)) & 1


class Rec(np.ndarray):
    """object ndarray that records the row indices read and written (footprint lemma L-FP)"""
    def __new__(cls, shape):
        o = np.empty(shape, dtype=object).view(cls)
        o.reads, o.writes = set(), set()
        return o

    def __array_finalize__(self, obj):
        self.reads = getattr(obj, 'reads', set()); self.writes = getattr(obj, 'writes', set())

    def __getitem__(self, k):
        if isinstance(k, tuple) and len(k) == 2 and isinstance(k[0], (int, np.integer)): self.reads.add(int(k[0]))
        return super().__getitem__(k)

    def __setitem__(self, k, v):
        if isinstance(k, tuple) and len(k) == 2 and isinstance(k[0], (int, np.integer)): self.writes.add(int(k[0]))
        super().__setitem__(k, v)


NL = 5          # lines 0..3 inputs, 4 output, 5 constant-zero line (all TMAX)
CAPIN = 16
GUARD = 4       # guard cells around the output region


class Gate:
    """layout + symbolic stimulus of one kernel call"""

    def __init__(self, name, Ks, inits, cap, terms=None, mono=False, ordered=False, tag='', shift=None, scale=None, base=None):
        self.name, self.lut, self.ar = name, LUTS[name], lut_arity(name)
        self.Ks, self.inits, self.cap = Ks, inits, cap
        self.terms = terms or [1] * self.ar          # terminator class per input: 1 = TMAX, OVL = TMAX_OVL
        self.mono, self.ordered, self.tag = mono, ordered, tag
        self.shift, self.scale, self.base = shift, scale, base
        # memory map: inputs at k*CAPIN, output after a guard band
        self.c_locs = np.array([k * CAPIN for k in range(4)] + [4 * CAPIN + GUARD, 4 * CAPIN + GUARD + 64 + GUARD])
        self.c_caps = np.array([CAPIN] * 4 + [cap, 4])
        self.size = int(self.c_locs[5]) + 4 + GUARD

    def build(self, eng):
        cbuf = Rec((self.size, 1))
        for k in range(self.size): np.ndarray.__setitem__(cbuf, (k, 0), T.lift(TMAX))
        self.guard_obj = {}
        z = int(self.c_locs[4])
        for k in list(range(z - GUARD, z)) + list(range(z + self.cap, z + self.cap + GUARD)):
            g = T(0, z3.RealVal(12345 + k)); self.guard_obj[k] = g
            np.ndarray.__setitem__(cbuf, (k, 0), g)
        for k in range(z, z + self.cap):          # arbitrary old content of the output region
            np.ndarray.__setitem__(cbuf, (k, 0), T(0, z3.Real(f'old{self.tag}_{k - z}')))
        self.tin, self.din = [], {}
        for i in range(self.ar):
            pos = int(self.c_locs[i])
            if self.inits[i]:
                np.ndarray.__setitem__(cbuf, (pos, 0), T.lift(TMIN)); pos += 1
            ts = []
            for k in range(self.Ks[i]):
                if self.base is not None:
                    v = self.base.tin[i][k]
                    if self.shift is not None: v = v + self.shift
                    if self.scale is not None: v = v * self.scale
                else:
                    v = z3.Real(f't{i}_{k}')
                    eng.assume(v >= -1000, v <= 1000)
                    if (self.mono or self.ordered) and ts: eng.assume(v > ts[-1])
                ts.append(v)
                np.ndarray.__setitem__(cbuf, (pos, 0), T(0, v)); pos += 1
            np.ndarray.__setitem__(cbuf, (pos, 0), T(self.terms[i]))
            self.tin.append(ts)
        delays = np.empty((1, NL + 1, 2, 2), dtype=object)
        for l in range(NL + 1):
            for p in range(2):
                for q in range(2):
                    if l < self.ar:
                        if self.base is not None:
                            d = self.base.din[(l, p, q)]
                            if self.scale is not None: d = d * self.scale
                        else:
                            d = z3.Real(f'd{l}' if self.mono else f'd{l}_{p}{q}')
                            eng.assume(d >= 0, d <= 1000)
                        self.din[(l, p, q)] = d
                        delays[0, l, p, q] = T(0, d)
                    else:
                        delays[0, l, p, q] = T(0, z3.RealVal(0))
        self.cbuf, self.delays = cbuf, delays
        self.init_vals = [np.ndarray.__getitem__(cbuf, (k, 0)) for k in range(self.size)]
        self.op = np.array([self.lut, 4] + [i if i < self.ar else 5 for i in range(4)] + [-1, 0, 0], dtype=np.int32)
        return self

    def run(self):
        self.cbuf.reads.clear(); self.cbuf.writes.clear()
        self.nr, self.nf = wave_sim._wave_eval(self.op, self.cbuf, self.c_locs, self.c_caps, 0, self.delays, np.array([0, 0]), 0)
        z = int(self.c_locs[4])
        self.w = [T.lift(np.ndarray.__getitem__(self.cbuf, (z + j, 0))) for j in range(self.cap)]
        return self

    # ---- decoding the output waveform (wspec)
    def decode(self):
        """-> (problem or None, init, finite entries [T], terminator class)"""
        term = None
        for j, x in enumerate(self.w):
            if x.c >= 1: term = j; break
        if term is None: return 'no terminator inside the output region', None, None, None
        body = self.w[:term]
        init = 1 if body and body[0].c == -1 else 0
        fin = body[init:]
        if any(x.c != 0 for x in fin): return 'non-finite entry inside the waveform body', None, None, None
        return None, init, fin, self.w[term].c

    def footprint_problem(self):
        z = int(self.c_locs[4])
        allowed_r = set()
        for i in list(range(self.ar)) + [5]:
            allowed_r |= set(range(int(self.c_locs[i]), int(self.c_locs[i]) + int(self.c_caps[i])))
        allowed_w = set(range(z, z + self.cap))
        allowed_r |= allowed_w
        if not self.cbuf.writes <= allowed_w: return f'write outside the output region: rows {sorted(self.cbuf.writes - allowed_w)}'
        if not self.cbuf.reads <= allowed_r: return f'read outside the operand regions: rows {sorted(self.cbuf.reads - allowed_r)}'
        for k, g in self.guard_obj.items():
            if np.ndarray.__getitem__(self.cbuf, (k, 0)) is not g: return f'guard cell {k} next to the output region overwritten'
        return None


def concretize(gate, model):
    """real float32 arrays for the stimulus of `gate` under a model -> (cbuf, delays)"""
    cbuf = np.full((gate.size, 1), TMAX, dtype=np.float32)
    for k in range(gate.size):
        cbuf[k, 0] = np.float32(T.lift(gate.init_vals[k]).concrete(model))
    delays = np.zeros((1, NL + 1, 2, 2), dtype=np.float32)
    for (l, p, q), d in gate.din.items():
        v = model.eval(d, model_completion=True)
        delays[0, l, p, q] = np.float32(float(Fraction(v.numerator_as_long(), v.denominator_as_long())))
    return cbuf, delays


def grid_model(eng, gate, extra=()):
    """a model whose times/delays lie on a dyadic grid (multiples of 1/8, |x| <= 1000) so that float32 replay is exact; None if none exists"""
    vs = [v for ts in gate.tin for v in ts] + list(gate.din.values())
    cons = []
    for j, v in enumerate(vs):
        if z3.is_rational_value(v): continue
        n = z3.Int(f'grid{j}')
        cons.append(v * 8 == n)
    if getattr(eng, 'failed_claim', None) is not None: extra = list(extra) + [eng.failed_claim]
    r = eng.solver.check(*cons, *extra)
    if r != z3.sat:
        if extra and eng.solver.check(*extra) == z3.sat: return eng.solver.model()
        return None
    return eng.solver.model()


def run_concrete(gate, cbuf, delays):
    """the real kernel on real float32 arrays -> (waveform list of floats, nr, nf) or raises"""
    nr, nf = wave_sim._wave_eval(gate.op, cbuf, gate.c_locs, gate.c_caps, 0, delays, np.array([0, 0]), 0)
    z = int(gate.c_locs[4])
    return [float(cbuf[z + j, 0]) for j in range(gate.cap)], int(nr), int(nf)


def K_combos(ar, K, exact=False, total=None):
    """transition-count tuples per input: all with every entry <= K (and at most `total` transitions overall)"""
    if exact: return [tuple([K] * ar)]
    return [k for k in itertools.product(range(K + 1), repeat=ar) if total is None or sum(k) <= total]


# ------------------------------------------------------------------------------------------- lemma evaluation (symbolic)

def expected_bool(g):
    f = lut_fn(g.name)
    i0 = f([g.inits[i] for i in range(g.ar)])
    i1 = f([(g.inits[i] + g.Ks[i]) & 1 for i in range(g.ar)])
    return i0, i1


def lemmas_on_path(eng, g, lemmas):
    """g has been run on the current path.  -> list of (lemma, detail) failures"""
    bad = []
    fp = g.footprint_problem()
    if fp: bad.append(('WF', fp))
    prob, init, fin, termc = g.decode()
    if prob:
        bad.append(('WF', prob))
        return bad
    if 'BOOL' in lemmas:
        e0, e1 = expected_bool(g)
        if init != e0: bad.append(('BOOL', f'initial value {init}, Boolean function of the initial input values {e0}'))
        if (init + len(fin)) & 1 != e1: bad.append(('BOOL', f'final value (parity) {(init + len(fin)) & 1}, Boolean function of the final input values {e1}'))
    if 'TIME' in lemmas:
        for x in fin:
            cands = [x.e == t + d for i in range(g.ar) for t in g.tin[i] for (l, p, q), d in g.din.items() if l == i]
            if not cands or not eng.valid(z3.Or(cands)):
                bad.append(('TIME', 'an output transition time is not (input transition time + one of that line\'s delays)')); break
    if 'MONO' in lemmas and g.mono:
        for a, b in zip(fin, fin[1:]):
            if not eng.valid(a.e < b.e):
                bad.append(('MONO', 'timestamps not strictly increasing although delays are polarity independent')); break
    if 'HAZ' in lemmas:
        for vals in haz_tuples(g.inits, g.Ks):
            prob = haz_claim(g.name, vals, init, len(fin))
            if prob: bad.append(('HAZ', f'abstract inputs {"".join(vals)}: {prob}')); break
    if 'TWINMONO' in lemmas:
        for a, b in zip(fin, fin[1:]):
            if not eng.valid(a.e < b.e):
                bad.append(('TWINMONO', 'twin')); break
    if 'WSA' in lemmas:
        rises = sum(1 for j in range(len(fin)) if (init + j) & 1 == 0)
        falls = len(fin) - rises
        if (int(g.nr), int(g.nf)) != (rises, falls): bad.append(('WSA', f'returned (rise, fall) counts {(int(g.nr), int(g.nf))}, waveform has {(rises, falls)}'))
    if 'OVL' in lemmas:
        if any(t == OVL for t in g.terms) and termc != OVL: bad.append(('OVL', 'an operand carries the overflow marker but the output terminator does not'))
        g2 = Gate(g.name, g.Ks, g.inits, 64, terms=g.terms, mono=g.mono, tag='u', base=g).build(eng).run()
        p2, init2, fin2, termc2 = g2.decode()
        if p2: bad.append(('OVL', 'unlimited-capacity run: ' + p2))
        elif termc != OVL:
            if init2 != init or len(fin2) != len(fin) or termc2 != termc or not all(eng.valid(a.e == b.e) for a, b in zip(fin, fin2)):
                bad.append(('OVL', f'overflow marker clear but waveform differs from the unlimited-capacity one ({len(fin)} vs {len(fin2)} transitions)'))
        elif not any(t == OVL for t in g.terms) and len(fin2) + init2 <= g.cap - 1 and False:
            pass
    if 'SHIFT' in lemmas:
        dlt = z3.Real('delta')
        eng.assume(dlt >= -500, dlt <= 500)
        g2 = Gate(g.name, g.Ks, g.inits, g.cap, terms=g.terms, mono=g.mono, tag='s', base=g, shift=dlt).build(eng).run()
        p2, init2, fin2, termc2 = g2.decode()
        if p2 or init2 != init or len(fin2) != len(fin) or termc2 != termc or (int(g2.nr), int(g2.nf)) != (int(g.nr), int(g.nf)) or \
                not all(eng.valid(b.e == a.e + dlt) for a, b in zip(fin, fin2)):
            bad.append(('SHIFT', 'shifting all input transitions by delta does not shift the output waveform by exactly delta'))
    if 'SCALE' in lemmas:
        for sc in (2, Fraction(1, 2)):
            scv = z3.RealVal(sc)
            g2 = Gate(g.name, g.Ks, g.inits, g.cap, terms=g.terms, mono=g.mono, tag='c', base=g, scale=scv).build(eng).run()
            p2, init2, fin2, termc2 = g2.decode()
            if p2 or init2 != init or len(fin2) != len(fin) or termc2 != termc or not all(eng.valid(b.e == a.e * scv) for a, b in zip(fin, fin2)):
                bad.append(('SCALE', f'scaling times and delays by {sc} does not scale the output waveform likewise')); break
    return bad


_O8 = {}
MVCH = {'0': 0, '1': 3, 'R': 5, 'F': 6, 'P': 4, 'N': 7}


def out8(name, vals):
    """8-valued result of the real LogicSim(m=8) for a one-gate circuit and abstract input values"""
    key = (name, tuple(vals))
    if key not in _O8:
        from kyupy import logic
        from kyupy.logic_sim import LogicSim
        from . import netlist
        ar = len(vals)
        nl = netlist.NL('one', [(f'i{j}', 'in') for j in range(ar)] + [('z', 'out')], [('g', name, ['z'], [f'i{j}' for j in range(ar)])])
        c = netlist.build(nl, 'verilog')
        s = LogicSim(c, 1, m=8)
        mv = np.full((s.s_len, 1), logic.UNASSIGNED, dtype=np.uint8)
        for j, v in enumerate(vals): mv[j, 0] = MVCH[v]
        s.s[0] = logic.mv_to_bp(mv); s.s_to_c(); s.c_prop(); s.c_to_s()
        _O8[key] = int(logic.bp_to_mv(s.s[1])[ar, 0])
    return _O8[key]


def haz_tuples(inits, Ks):
    """abstract values in {0,1,R,F,P,N} each input waveform (initial value, number of transitions) conforms to"""
    per = []
    for ini, k in zip(inits, Ks):
        if k == 0: per.append(['1', 'N'] if ini else ['0', 'P'])
        elif k % 2: per.append(['F'] if ini else ['R'])
        else: per.append(['N'] if ini else ['P'])
    return list(itertools.product(*per))


def haz_claim(name, vals, init, nfin):
    o8 = out8(name, vals)
    if o8 in (1, 2): return f'8-valued simulation yields unknown ({o8}) for known inputs'
    if init != (o8 >> 1) & 1 or (init + nfin) & 1 != o8 & 1: return f'8-valued result {o8} but waveform goes {init} -> {(init + nfin) & 1}'
    if o8 in (0, 3) and nfin: return f'8-valued result is the hazard-free constant {o8 & 1} but the waveform has {nfin} transitions'
    return None


# ------------------------------------------------------------------------------------------- lemma evaluation (concrete replay)

def decode_floats(w):
    term = next((j for j, x in enumerate(w) if x >= float(TMAX)), None)
    if term is None: return 'no terminator inside the output region', None, None, None
    body = w[:term]
    init = 1 if body and body[0] <= float(TMIN) else 0
    fin = body[init:]
    if any(x <= float(TMIN) or x >= float(TMAX) for x in fin): return 'non-finite entry inside the waveform body', None, None, None
    return None, init, fin, ('ovl' if w[term] == float(TMAX_OVL) else 'max')


def concrete_stimulus(name, Ks, inits, cap, terms, times, delays):
    g = Gate(name, tuple(Ks), tuple(inits), cap, terms=[Fraction(t).limit_denominator(10) for t in terms])
    cbuf = np.full((g.size, 1), TMAX, dtype=np.float32)
    z = int(g.c_locs[4])
    cbuf[z - GUARD:z, 0] = 777.0; cbuf[z + cap:z + cap + GUARD, 0] = 777.0
    cbuf[z:z + cap, 0] = 555.0
    for i in range(g.ar):
        pos = int(g.c_locs[i])
        if inits[i]: cbuf[pos, 0] = TMIN; pos += 1
        for k in range(Ks[i]): cbuf[pos, 0] = np.float32(times[i][k]); pos += 1
        cbuf[pos, 0] = TMAX_OVL if g.terms[i] == OVL else TMAX
    d = np.zeros((1, NL + 1, 2, 2), dtype=np.float32)
    for l in range(g.ar):
        for p in range(2):
            for q in range(2): d[0, l, p, q] = np.float32(delays[l][p][q])
    g.op = np.array([g.lut, 4] + [i if i < g.ar else 5 for i in range(4)] + [-1, 0, 0], dtype=np.int32)
    return g, cbuf, d


def concrete_lemma(data):
    """replay of one lemma on real float32 arrays -> problem string or None"""
    name, Ks, inits, cap, terms, times, delays, lemma = (data[k] for k in ('name', 'Ks', 'inits', 'cap', 'terms', 'times', 'delays', 'lemma'))
    g, cbuf, d = concrete_stimulus(name, Ks, inits, cap, terms, times, delays)
    z = int(g.c_locs[4])
    try:
        w, nr, nf = run_concrete(g, cbuf, d)
    except Exception as e:
        return f'_wave_eval raised {type(e).__name__}: {e}'
    if (cbuf[z - GUARD:z, 0] != 777.0).any() or (cbuf[z + cap:z + cap + GUARD, 0] != 777.0).any(): return 'memory next to the output region overwritten'
    prob, init, fin, term = decode_floats(w)
    if prob: return prob
    if lemma == 'WF': return None
    if lemma == 'BOOL':
        e0, e1 = expected_bool(g)
        if init != e0: return f'initial value {init} != {e0}'
        if (init + len(fin)) & 1 != e1: return f'final value {(init + len(fin)) & 1} != {e1}'
    if lemma == 'TIME':
        cands = {float(np.float32(times[i][k]) + np.float32(delays[i][p][q])) for i in range(g.ar) for k in range(Ks[i]) for p in range(2) for q in range(2)}
        for x in fin:
            if x not in cands: return f'output transition at {x} is not an input transition time plus a delay of that line'
    if lemma == 'MONO':
        for a, b in zip(fin, fin[1:]):
            if not a < b: return f'timestamps {a}, {b} not strictly increasing'
    if lemma == 'WSA':
        rises = sum(1 for j in range(len(fin)) if (init + j) & 1 == 0)
        if (nr, nf) != (rises, len(fin) - rises): return f'returned counts {(nr, nf)} but waveform has {(rises, len(fin) - rises)}'
    if lemma == 'HAZ':
        for vals in haz_tuples(inits, Ks):
            prob = haz_claim(name, vals, init, len(fin))
            if prob: return f'abstract inputs {"".join(vals)}: {prob} (transitions at {fin})'
    if lemma == 'OVL':
        if any(Fraction(t).limit_denominator(10) == OVL for t in terms) and term != 'ovl': return 'operand overflow marker not propagated'
        g2, cbuf2, d2 = concrete_stimulus(name, Ks, inits, 64, terms, times, delays)
        w2, _, _ = run_concrete(g2, cbuf2, d2)
        _, init2, fin2, term2 = decode_floats(w2)
        if term != 'ovl' and (init2, fin2, term2) != (init, fin, term): return f'overflow marker clear but waveform {fin} differs from unlimited-capacity waveform {fin2}'
    if lemma == 'SHIFT':
        dl = data['delta']
        g2, cbuf2, d2 = concrete_stimulus(name, Ks, inits, cap, terms, [[t + dl for t in ts] for ts in times], delays)
        w2, nr2, nf2 = run_concrete(g2, cbuf2, d2)
        _, init2, fin2, term2 = decode_floats(w2)
        if init2 != init or term2 != term or fin2 is None or [float(np.float32(x + dl)) for x in fin] != fin2: return f'shift by {dl}: {fin} -> {fin2}'
    if lemma == 'SCALE':
        for sc in (2.0, 0.5):
            g2, cbuf2, d2 = concrete_stimulus(name, Ks, inits, cap, terms, [[t * sc for t in ts] for ts in times], [[[x * sc for x in q] for q in p] for p in delays])
            w2, _, _ = run_concrete(g2, cbuf2, d2)
            _, init2, fin2, term2 = decode_floats(w2)
            if init2 != init or term2 != term or fin2 is None or [x * sc for x in fin] != fin2: return f'scale by {sc}: {fin} -> {fin2}'
    return None


def model_stimulus(g, mdl):
    fr = lambda v: (lambda x: float(Fraction(x.numerator_as_long(), x.denominator_as_long())))(mdl.eval(v, model_completion=True))
    times = [[fr(v) for v in ts] for ts in g.tin] + [[] for _ in range(4 - g.ar)]
    delays = [[[fr(g.din[(l, p, q)]) for q in range(2)] for p in range(2)] for l in range(g.ar)]
    return times, delays


def kernel_job(job):
    """job = (name, Ks, inits, cap, terms, mono, lemmas) -> Report.  Explores every path of the real kernel for this stimulus shape."""
    from . import common
    name, Ks, inits, cap, terms, mono, lemmas = job
    rep = common.Report()
    eng = Engine(timeout_ms=60000)
    found = {}

    def fn(eng):
        g = Gate(name, Ks, inits, cap, terms=terms, mono=mono).build(eng)
        try:
            g.run()
        except (engine.Infeasible, EngineUnknown):
            raise
        except Exception as e:
            bad = [('WF', f'_wave_eval raised {type(e).__name__}: {e}')]
            g.w = None
        else:
            mdl0 = grid_model(eng, g)          # before the product-run lemmas add their constraints
            bad = lemmas_on_path(eng, g, lemmas)
        rep.counts['obligations'] += len(lemmas)
        if not bad:
            rep.counts['discharged'] += len(lemmas)
            # concolic model validation: the same path on real float32 arrays
            mdl = mdl0
            if mdl is not None:
                times, delays = model_stimulus(g, mdl)
                gc, cbuf, d = concrete_stimulus(name, Ks, inits, cap, [float(t) for t in g.terms], times, delays)
                try:
                    w, nr, nf = run_concrete(gc, cbuf, d)
                    sym = [float(np.float32(x.concrete(mdl))) for x in g.w]
                    _, i1, f1, t1 = decode_floats(w); _, i2, f2, t2 = decode_floats(sym)
                    if (i1, f1, t1) != (i2, f2, t2) or (nr, nf) != (int(g.nr), int(g.nf)):
                        rep.error(f'model mismatch {name} Ks={Ks} inits={inits}: real {w[:6]} vs symbolic {sym[:6]}')
                except Exception as e:
                    rep.error(f'model mismatch {name}: concrete run raised {type(e).__name__}: {e} where the symbolic run did not')
                rep.counts['concolic_runs'] += 1
            return 1
        for lemma, detail in bad:
            if lemma in found: continue
            mdl = grid_model(eng, g) or eng.model()
            times, delays = model_stimulus(g, mdl)
            data = {'name': name, 'Ks': list(Ks), 'inits': list(inits), 'cap': cap, 'terms': [float(t) for t in g.terms], 'times': times, 'delays': delays, 'lemma': lemma, 'mono': mono}
            if lemma == 'SHIFT':
                v = mdl.eval(z3.Real('delta'), model_completion=True); data['delta'] = float(Fraction(v.numerator_as_long(), v.denominator_as_long()))
            found[lemma] = (data, detail)
        return 0

    try:
        eng.explore(fn)
    except EngineUnknown as e:
        rep.error(f'{name} Ks={Ks} inits={inits} cap={cap}: {e}')
    rep.counts['paths'] += eng.npaths
    rep.counts['branches'] += eng.nbranches
    rep.counts['queries_engine'] += eng.nchecks
    rep.solver_s += eng.tsolve
    if 'TWINMONO' in found:
        rep.counts['twin_refuted'] += 1
        del found['TWINMONO']
    for lemma, (data, detail) in found.items():
        prob = concrete_lemma(data)
        if prob: rep.violation(f'lemma={lemma}/{name}', f'{name} inputs K={list(Ks)} init={list(inits)} cap={cap}: {detail}; replay: {prob}', data)
        else: rep.error(f'{name} {lemma}: counterexample does not replay on float32 arrays ({detail}); times={data["times"]} delays={data["delays"]}')
    if not found and eng.complete:
        rep.sample({'gate': name, 'transitions_per_input': list(Ks), 'initial_values': list(inits), 'capacity': cap, 'lemmas': sorted(lemmas), 'paths': eng.npaths, 'verdict': 'valid on all paths'})
    return rep
