"""Oracle `ref2`: 2-valued netlist semantics, written from the documentation (sim.py comments, logic_sim docstrings,
vendor data sheets) - NOT from kind_prefixes / the LUT constants.  Works on z3 bit-vectors (bitwise = per lane),
Python ints (0/1 or masks) alike: only & | ^ ~ are used."""
import re

_GENERIC = re.compile(r'^(nand|nor|and|or|xnor|xor)(\d*)')
_FIXED = [
    (re.compile(r'^(aoi|ao)211'), 'ao211', 4), (re.compile(r'^(oai|oa)211'), 'oa211', 4),
    (re.compile(r'^(aoi|ao)22'), 'ao22', 4), (re.compile(r'^(oai|oa)22'), 'oa22', 4),
    (re.compile(r'^(aoi|ao)21'), 'ao21', 3), (re.compile(r'^(oai|oa)21'), 'oa21', 3),
]
_BUF = ('buf', 'nbuf', 'delln', 'tiel', '__const0__')      # documented aliases of the buffer primitive
_INV = ('not', 'inv', 'ibuf', 'tieh', '__const1__')        # ... of the inverter primitive


def is_dff(kind): return 'dff' in kind.lower()
def is_latch(kind): return 'latch' in kind.lower()
def is_state(kind): return is_dff(kind) or is_latch(kind)


def classify(kind):
    """-> (family, fixed arity or None, inverted)   or None for a kind outside the supported primitives."""
    k = kind.lower()
    if k.startswith('isolor'): return ('or', 2, False)
    if k.startswith('mux21'): return ('mux21', 3, False)
    for rx, fam, ar in _FIXED:
        m = rx.match(k)
        if m: return (fam, ar, m.group(1).endswith('i'))
    m = _GENERIC.match(k)
    if m:
        f = m.group(1)
        inv = f in ('nand', 'nor', 'xnor')
        base = {'nand': 'and', 'nor': 'or', 'xnor': 'xor'}.get(f, f)
        return (base, None, inv)
    if k.startswith(_INV): return ('buf', 1, True)
    if k.startswith(_BUF): return ('buf', 1, False)
    return None


def explicit_arity(kind):
    m = _GENERIC.match(kind.lower())
    return int(m.group(2)) if m and m.group(2) else None


SIZED_BY_CONNECTION = False   # alternative reading used only to classify a finding: sized AND3/NAND4/... take their arity from the connected pins


def prim(kind, ins, zero, ones):
    """Value of a primitive's output.  ins: list of values, None = unconnected pin (reads constant 0)."""
    c = classify(kind)
    if c is None: raise KeyError(f'unsupported kind {kind}')
    fam, ar, inv = c
    if ar is None:
        hi = max([i for i, v in enumerate(ins) if v is not None], default=-1)
        ar = explicit_arity(kind)
        if ar is None or SIZED_BY_CONNECTION: ar = max(2, hi + 1)
    v = [(ins[i] if i < len(ins) and ins[i] is not None else zero) for i in range(ar)]
    if fam == 'buf': r = v[0]
    elif fam == 'and':
        r = v[0]
        for x in v[1:]: r = r & x
    elif fam == 'or':
        r = v[0]
        for x in v[1:]: r = r | x
    elif fam == 'xor':
        r = v[0]
        for x in v[1:]: r = r ^ x
    elif fam == 'ao21': r = (v[0] & v[1]) | v[2]
    elif fam == 'oa21': r = (v[0] | v[1]) & v[2]
    elif fam == 'ao22': r = (v[0] & v[1]) | (v[2] & v[3])
    elif fam == 'oa22': r = (v[0] | v[1]) & (v[2] | v[3])
    elif fam == 'ao211': r = (v[0] & v[1]) | v[2] | v[3]
    elif fam == 'oa211': r = (v[0] | v[1]) & v[2] & v[3]
    elif fam == 'mux21': r = (v[0] & (v[2] ^ ones)) | (v[1] & v[2])      # i2 ? i1 : i0
    else: raise KeyError(fam)
    return (r ^ ones) if inv else r


def s_nodes(circuit):
    """documented order: ports, then flip-flops, then latches (by node order)."""
    return list(circuit.io_nodes) + [n for n in circuit.nodes if is_dff(n.kind)] + [n for n in circuit.nodes if is_latch(n.kind)]


class Alg2:
    """2-valued algebra on bit masks / bit-vectors."""
    def __init__(self, zero, ones): self.zero, self.ones = zero, ones
    def inv(self, v): return v ^ self.ones
    def prim(self, kind, ins): return prim(kind, ins, self.zero, self.ones)


class Ref2:
    """Gate-by-gate evaluation of a Circuit object graph.  assign: {s_node position: value} for ports without
    driver and for state elements.  cut: optional {line index: value} (line driven with the given value, C16)."""

    def __init__(self, circuit, assign, zero, ones, cut=None, driven_ports_cut=False, alg=None):
        self.alg = alg or Alg2(zero, ones)
        self.c = circuit
        self.sn = s_nodes(circuit)
        self.pos = {id(n): i for i, n in enumerate(self.sn)}
        self.assign, self.zero, self.ones = assign, zero, ones
        self.cut = cut or {}
        self.memo = {}
        self.driven_ports_cut = driven_ports_cut
        self.on_stack = set()

    def line(self, l):
        if l is None: return self.zero
        k = l.index
        if k in self.cut: return self.cut[k]
        if k in self.memo: return self.memo[k]
        if k in self.on_stack: raise RecursionError('combinational loop')
        self.on_stack.add(k)
        v = self.out(l.driver, l.driver_pin)
        self.on_stack.discard(k)
        self.memo[k] = v
        return v

    def out(self, n, pin):
        if is_state(n.kind):
            s = self.assign[self.pos[id(n)]]
            return self.alg.inv(s) if (is_dff(n.kind) and pin == 1) else s
        if id(n) in self.pos:
            has_driver = len(n.ins) > 0 and n.ins[0] is not None
            if not has_driver or self.driven_ports_cut:
                return self.assign[self.pos[id(n)]]
            return self.line(n.ins[0])                      # a driven port passes its driver's value on
        if n.kind == '__fork__':
            return self.line(n.ins[0]) if len(n.ins) > 0 else self.zero
        return self.alg.prim(n.kind, [self.line(l) if l is not None else None for l in n.ins])

    def captured(self):
        """{s_node position: value at the node's input 0} for every port/state element that has an input."""
        r = {}
        for i, n in enumerate(self.sn):
            if len(n.ins) > 0 and n.ins[0] is not None:
                r[i] = self.line(n.ins[0])
            elif is_state(n.kind):
                r[i] = self.zero                      # unconnected (or absent) data pin reads constant 0
        return r
