"""E1 - the lane engine: run the *real* LogicSim on dtype=object arrays of z3 BitVec(8) terms.

numpy dispatches & | ^ ~, slicing, fancy-index assignment and in-place ops on object arrays to the elements'
Python operators, so the unmodified s_to_c / _prop_cpu / c_prop / c_to_s / s_ppo_to_ppi / cycle build terms.
No control flow in those functions depends on signal data: exactly one path."""
import numpy as np
import z3

W = 8
ZERO = z3.BitVecVal(0, W)
ONES = z3.BitVecVal(255, W)


class LV:
    """lane value: a z3 BitVec(8) wrapped so that DATA-DEPENDENT control flow in the code under test (e.g. a fast path guarded by
    `mask.any()`) forks in the E2 engine instead of crashing; the unmodified simulators never ask for a truth value (one path)."""
    __slots__ = ('e',)
    __array_ufunc__ = None
    __hash__ = None

    def __init__(self, e): self.e = e
    def _o(self, o): return o.e if isinstance(o, LV) else (o if z3.is_bv(o) else z3.BitVecVal(int(o) & 0xff, W))
    def __and__(self, o): return LV(self.e & self._o(o))
    __rand__ = __and__
    def __or__(self, o): return LV(self.e | self._o(o))
    __ror__ = __or__
    def __xor__(self, o): return LV(self.e ^ self._o(o))
    __rxor__ = __xor__
    def __invert__(self): return LV(~self.e)
    def __lshift__(self, o): return LV(self.e << self._o(o))
    def __rshift__(self, o): return LV(z3.LShR(self.e, self._o(o)))
    def __eq__(self, o): return _branch(self.e == self._o(o))
    def __ne__(self, o): return _branch(self.e != self._o(o))
    def __bool__(self): return _branch(self.e != 0)
    def __repr__(self): return f'LV({self.e})'


ACTIVE = None          # the engine of the lane exploration in progress (set by explore)


def _branch(cond):
    if ACTIVE is None: raise RuntimeError('data-dependent control flow on lane values outside an exploration')
    return ACTIVE.branch(cond)


def bv(x):
    if isinstance(x, LV): return x.e
    if z3.is_bv(x): return x
    return z3.BitVecVal(int(x) & 0xff, W)


def norm(arr):
    """object array -> every element a z3 BitVec(8) (ints produced by `out[...] = 0xff` etc. are wrapped)."""
    out = np.empty(arr.shape, dtype=object)
    for idx in np.ndindex(arr.shape): out[idx] = bv(arr[idx])
    return out


def lane_mask(sims, byte):
    n = min(8, max(0, sims - 8 * byte))
    return (1 << n) - 1


def symbolize(sim, tag='i', garbage=True, gtag=None):
    """Replace sim.c and sim.s by symbolic object arrays.
    s[0] (assigned values): fresh variable per (slot, plane, byte) for *every* slot.
    s[1]: the real initial constants.  c: arbitrary garbage (fresh variables) except the constant-zero slot,
    which the real constructor leaves 0 and which is never written."""
    nbytes = sim.c.shape[-1]
    ins = {}
    s = np.empty(sim.s.shape, dtype=object)
    for idx in np.ndindex(sim.s.shape): s[idx] = LV(z3.BitVecVal(int(sim.s[idx]), W))
    for i in range(sim.s_len):
        for p in range(3):
            for b in range(nbytes):
                v = z3.BitVec(f'{tag}{i}_p{p}_b{b}', W)
                s[0, i, p, b] = LV(v)
                ins[(i, p, b)] = v
    c = np.empty(sim.c.shape, dtype=object)
    zloc = int(sim.c_locs[sim.zero_idx])
    for idx in np.ndindex(sim.c.shape):
        if garbage and idx[0] != zloc:
            c[idx] = LV(z3.BitVec(f'{gtag or tag}g{idx[0]}_{idx[1]}_{idx[2]}', W))
        else:
            c[idx] = LV(z3.BitVecVal(int(sim.c[idx]), W))
    sim.s, sim.c = s, c
    return ins


def simulate(sim, inject_cb=None, use_cb_path=False):
    sim.s_to_c()
    if inject_cb is not None: sim.c_prop(inject_cb)
    elif use_cb_path: sim.c_prop(lambda *a: None)
    else: sim.c_prop()
    sim.c_to_s()
    sim.s = norm(sim.s)


class Q:
    """tiny counting wrapper around z3.Solver"""

    def __init__(self, rep, timeout_ms=120000, eng=None):
        self.rep = rep
        if eng is None: eng = ACTIVE
        if eng is not None: self.s = eng.solver              # queries are decided under the current path condition of the exploration
        else:
            self.s = z3.Solver()
            self.s.set('timeout', timeout_ms)

    def check(self, *extra):
        import time
        t = time.time()
        r = self.s.check(*extra)
        self.rep.solver_s += time.time() - t
        self.rep.counts['queries_' + str(r)] += 1
        return r

    def add(self, *a): self.s.add(*a)
    def push(self): self.s.push()
    def pop(self): self.s.pop()
    def model(self): return self.s.model()


def model_bytes(model, ins):
    """{(slot, plane, byte): int} under the model (unconstrained variables -> 0)."""
    out = {}
    for k, v in ins.items():
        out[k] = model.eval(v, model_completion=True).as_long()
    return out


def explore(fn, rep):
    """run fn(eng) once per feasible path of the code under test (normally exactly one); data-dependent branches on lane values fork"""
    from .engine import Engine, EngineUnknown
    global ACTIVE
    eng = Engine(timeout_ms=120000, max_paths=256, deadline_s=60)
    prev, ACTIVE = ACTIVE, eng
    try: eng.explore(fn)
    except EngineUnknown as e: rep.note(f'lane exploration not covered: {e} (data-dependent control flow multiplies paths; the unmodified simulators have exactly one)')
    finally: ACTIVE = prev
    rep.counts['lane_paths'] += eng.npaths
    return eng


def pathwise(job):
    """decorator for a job function (args -> Report) that runs LogicSim on lane values: the job is executed once per path of the code
    under test (exactly one for the unmodified simulators) and the reports of all paths are merged"""
    import functools
    from . import common

    @functools.wraps(job)
    def wrapper(*a, **k):
        out = common.Report()
        explore(lambda eng: out.merge(job(*a, **k)) and None, out)
        return out
    return wrapper
