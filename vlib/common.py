"""Shared infrastructure: reports, evidence, known findings, replay files, process pool."""
import collections
import hashlib
import inspect
import io
import json
import multiprocessing as mp
import os
import sys
import time
import traceback

ROOT = os.path.dirname(os.path.dirname(os.path.abspath(__file__)))
EVIDENCE_DIR = os.environ.get('VERIF_EVIDENCE_DIR') or os.path.join(ROOT, 'evidence')
REPLAY_DIR = os.environ.get('VERIF_REPLAY_DIR') or os.path.join(ROOT, 'replays')
KNOWN_FILE = os.path.join(ROOT, 'known_findings.json')
NPROC = int(os.environ.get('VERIF_NPROC', '16'))


def silence_kyupy():
    import kyupy
    kyupy.log.logfile = io.StringIO()
    return kyupy


def fn_sha(*objs):
    """{qualified name: sha1 of current source text} for evidence (shows the encoding follows /repo's tree)."""
    out = {}
    for o in objs:
        try:
            src = inspect.getsource(o)
        except (OSError, TypeError):
            src = repr(o)
        name = getattr(o, '__module__', '') + '.' + getattr(o, '__qualname__', getattr(o, '__name__', str(o)))
        if inspect.ismodule(o): name = o.__name__
        out[name] = hashlib.sha1(src.encode()).hexdigest()[:12]
    return out


class Report:
    """Accumulates what one check run covered and found.  Mergeable across worker processes."""

    def __init__(self):
        self.violations = []          # dict(key=..., what=..., replay={...})
        self.errors = []              # harness problems -> exit 2
        self.counts = collections.Counter()   # free counters: paths, branches, obligations, queries_sat/unsat/unknown, ...
        self.samples = []
        self.notes = []               # free-text (e.g. not covered)
        self.solver_s = 0.0
        self.detail = {}              # per-family breakdown

    def violation(self, key, what, replay):
        self.violations.append({'key': key, 'what': what, 'replay': replay})

    def error(self, msg):
        self.errors.append(str(msg)[:2000])

    def sample(self, s, limit=6):
        if len(self.samples) < limit:
            self.samples.append(s)

    def note(self, s):
        if s not in self.notes: self.notes.append(s)

    def merge(self, other):
        self.violations += other.violations
        self.errors += other.errors
        self.counts.update(other.counts)
        for s in other.samples: self.sample(s)
        for n in other.notes: self.note(n)
        self.solver_s += other.solver_s
        for k, v in other.detail.items():
            if isinstance(v, (int, float)) and isinstance(self.detail.get(k, 0), (int, float)):
                self.detail[k] = self.detail.get(k, 0) + v
            else:
                self.detail[k] = v
        return self


def _worker(args):
    func, item = args
    try:
        return func(item)
    except Exception:                         # noqa: harness failure inside a worker
        r = Report()
        r.error(f'worker exception on {str(item)[:200]}: {traceback.format_exc()[-1500:]}')
        return r


def pmap(func, items, procs=None, chunksize=1):
    """Run func(item)->Report in forked workers, merge.  func must be a module-level function."""
    items = list(items)
    rep = Report()
    procs = min(procs or NPROC, max(1, len(items)))
    if procs <= 1 or os.environ.get('VERIF_SERIAL'):
        for it in items: rep.merge(_worker((func, it)))
        return rep
    ctx = mp.get_context('fork')
    with ctx.Pool(procs) as pool:
        for r in pool.imap_unordered(_worker, [(func, it) for it in items], chunksize=chunksize):
            rep.merge(r)
    return rep


def load_known():
    try:
        with open(KNOWN_FILE) as f:
            return json.load(f).get('findings', [])
    except FileNotFoundError:
        return []


def jsonable(x):
    import numpy as np
    if isinstance(x, dict): return {str(k): jsonable(v) for k, v in x.items()}
    if isinstance(x, (list, tuple, set)): return [jsonable(v) for v in x]
    if isinstance(x, np.ndarray): return x.tolist()
    if isinstance(x, (np.integer,)): return int(x)
    if isinstance(x, (np.floating,)): return float(x)
    if isinstance(x, (str, int, float, bool)) or x is None: return x
    return str(x)


def write_replay(pid, v):
    os.makedirs(REPLAY_DIR, exist_ok=True)
    body = json.dumps(jsonable({'property': pid, 'key': v['key'], 'what': v['what'], 'replay': v['replay']}), indent=1, sort_keys=True)
    h = hashlib.sha1(body.encode()).hexdigest()[:10]
    path = os.path.join(REPLAY_DIR, f'{pid}-{h}.json')
    with open(path, 'w') as f: f.write(body)
    return path


def finish(pid, tier, seed, level, rep, t0, coverage, assumptions):
    """Prints KNOWN-FINDING / VIOLATION lines, writes evidence, returns exit code."""
    known = [k for k in load_known() if k.get('property') == pid and k.get('status') == 'known']
    known_keys = {k['key']: k for k in known}
    seen_known, new = {}, []
    for v in rep.violations:
        if v['key'] in known_keys: seen_known.setdefault(v['key'], v)
        else: new.append(v)
    for key, v in seen_known.items():
        print(f'KNOWN-FINDING: property={pid} {key}: {known_keys[key].get("what", v["what"])}')
    paths = []
    dedup = {}
    for v in new: dedup.setdefault(v['key'], v)
    for key, v in dedup.items():
        p = write_replay(pid, v)
        paths.append(p)
        print(f'VIOLATION property={pid} replay={p}')
        print(f'  key={key}: {v["what"]}')
    for e in rep.errors[:20]:
        print(f'HARNESS-ERROR property={pid}: {e}', file=sys.stderr)
    cov = dict(coverage)
    cov.setdefault('samples', rep.samples or ['(none)'])
    cov['queries'] = {k[8:]: v for k, v in rep.counts.items() if k.startswith('queries_')}
    cov['solver_wall_s'] = round(rep.solver_s, 3)
    cov['counters'] = {k: v for k, v in rep.counts.items() if not k.startswith('queries_')}
    cov['not_covered'] = rep.notes
    cov['known_findings_seen'] = sorted(seen_known)
    cov['harness_errors'] = len(rep.errors)
    if rep.detail: cov['detail'] = rep.detail
    ev = {'property_id': pid, 'tier': tier, 'seed': int(seed), 'level': level, 'coverage': jsonable(cov),
          'assumptions': list(assumptions), 'wall_s': round(time.time() - t0, 2), 'violations': len(dedup)}
    os.makedirs(EVIDENCE_DIR, exist_ok=True)
    with open(os.path.join(EVIDENCE_DIR, f'{pid}.json'), 'w') as f:
        json.dump(ev, f, indent=1, sort_keys=True)
    if dedup: return 1
    if rep.errors: return 2
    return 0
