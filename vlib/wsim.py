"""Whole-simulator symbolic runs through the public WaveSim / WaveSimCuda API (E2), boundary lemmas for s_to_c and capture."""
import itertools
from fractions import Fraction

import numpy as np
import z3

from kyupy import logic, wave_sim
from kyupy.logic_sim import LogicSim
from kyupy.wave_sim import WaveSim, WaveSimCuda, TMIN, TMAX, TMAX_OVL

from . import common, netlist, ref2
from .engine import Engine, T, EngineUnknown, Infeasible, lift_T

OVL = Fraction(11, 10)
CLS = {'cpu': WaveSim, 'gpu': WaveSimCuda}
VAL = {'0': (0, 0), '1': (1, 1), 'R': (0, 1), 'F': (1, 0)}


def decode(ws):
    """list of T -> (problem, init, finite entries, terminator class)"""
    term = None
    for j, x in enumerate(ws):
        if x.c >= 1: term = j; break
    if term is None: return 'no terminator inside the region', None, None, None
    body = ws[:term]
    init = 1 if body and body[0].c == -1 else 0
    fin = body[init:]
    if any(x.c != 0 for x in fin): return 'non-finite entry inside the waveform body', None, None, None
    return None, init, fin, ws[term].c


def fr(mdl, v):
    x = mdl.eval(v, model_completion=True)
    return float(Fraction(x.numerator_as_long(), x.denominator_as_long()))


def grid_model(eng, vs):
    """a model on the dyadic grid (multiples of 1/8) so that the float32 replay is exact; falls back to any model"""
    cons = [v * 8 == z3.Int(f'grid{j}') for j, v in enumerate(vs)]
    extra = [eng.failed_claim] if getattr(eng, 'failed_claim', None) is not None else []
    if eng.solver.check(*cons, *extra) == z3.sat: return eng.solver.model()
    if extra and eng.solver.check(*extra) == z3.sat: return eng.solver.model()
    return eng.model()


class SymWave:
    """a real WaveSim/WaveSimCuda object whose arrays hold symbolic times"""

    def __init__(self, eng, cls, c, caps, stim, opts, dvars=None, tvars=None, ndata=1, tag=''):
        self.c_, self.cls, self.caps, self.stim, self.opts = c, cls, caps, stim, opts
        nl = len(c.lines)
        self.dv = dvars if dvars is not None else {}
        d = np.empty((ndata, nl, 2, 2), dtype=object)
        for k in range(ndata):
            for l in range(nl):
                for p in range(2):
                    for q in range(2):
                        key = (k, l, p, q)
                        if key not in self.dv:
                            v = z3.Real(f'd{tag}{k}_{l}_{p}{q}')
                            eng.assume(v >= 0, v <= 100)
                            self.dv[key] = v
                        d[k, l, p, q] = T(0, self.dv[key])
        self.w = w = CLS[cls](c, d, sims=1, c_caps=caps_of(c, caps), **opts)
        w.c = lift_T(np.asarray(w.c))
        s = np.zeros(np.asarray(w.s).shape, dtype=object)
        self.tv = tvars if tvars is not None else {}
        for i, v in stim.items():
            ini, fin = VAL[v]
            s[0, i, 0] = ini; s[2, i, 0] = fin
            if i not in self.tv:
                t = z3.Real(f't{tag}{i}')
                eng.assume(t >= -100, t <= 100)
                self.tv[i] = t
            s[1, i, 0] = T(0, self.tv[i])
        w.s = s

    def run(self, capture_time=None, **kw):
        w = self.w
        w.s_to_c(); w.c_prop(**kw)
        if capture_time is None: w.c_to_s()
        else: w.c_to_s(time=capture_time)
        return self

    def line_wave(self, l):
        w = self.w
        loc, cap = int(w.c_locs[l]), int(w.c_caps[l])
        return [T.lift(w.c[loc + j, 0]) for j in range(cap)]


def concrete_wave(cls, c, caps, stim, opts, dvals, tvals, ndata=1, capture_time=None, **kw):
    nl = len(c.lines)
    d = np.zeros((ndata, nl, 2, 2), dtype=np.float32)
    for (k, l, p, q), v in dvals.items(): d[k, l, p, q] = v
    w = CLS[cls](c, d, sims=1, c_caps=caps_of(c, caps), **opts)
    for i, v in stim.items():
        w.s[0, i, 0], w.s[2, i, 0] = VAL[v]
        w.s[1, i, 0] = tvals.get(i, 0.0)
    w.s_to_c(); w.c_prop(**kw)
    if capture_time is None: w.c_to_s()
    else: w.c_to_s(time=capture_time)
    return w


def decode_f(ws):
    ws = [float(x) for x in ws]
    term = next((j for j, x in enumerate(ws) if x >= float(TMAX)), None)
    if term is None: return 'no terminator', None, None, None
    body = ws[:term]
    init = 1 if body and body[0] <= float(TMIN) else 0
    fin = body[init:]
    if any(x <= float(TMIN) for x in fin): return 'non-finite entry', None, None, None
    return None, init, fin, ('ovl' if ws[term] == float(TMAX_OVL) else 'max')


# ------------------------------------------------------------------------------------------------ boundary lemma: s_to_c

def boundary_jobs():
    return [(cls, v) for cls in ('cpu', 'gpu') for v in itertools.product('01RF', repeat=2)]


def boundary_job(job):
    cls, vals = job
    rep = common.Report()
    nl = netlist.NL('b', [('a', 'in'), ('b', 'in'), ('z', 'out')], [('g', 'AND2', ['z'], ['a', 'b'])])
    c = netlist.build(nl, 'verilog')
    eng = Engine()
    bad = []

    def fn(eng):
        sw = SymWave(eng, cls, c, 8, {0: vals[0], 1: vals[1]}, {})
        for i in (0, 1):            # arbitrary left-overs of an earlier stimulus in the input waveform (finite times and sentinels)
            loc = int(sw.w.c_locs[sw.w.ppi_offset + i])
            for j, old in enumerate((T(0, z3.Real(f'old{i}_0')), T.lift(TMIN) if i else T(0, z3.Real(f'old{i}_1')), T(0, z3.Real(f'old{i}_2')), T.lift(TMAX_OVL))):
                sw.w.c[loc + j, 0] = old
        sw.w.s_to_c()
        for i in (0, 1):
            loc = int(sw.w.c_locs[sw.w.ppi_offset + i])
            ws = [T.lift(sw.w.c[loc + j, 0]) for j in range(4)]
            prob, init, fin, term = decode(ws)
            ini, fi = VAL[vals[i]]
            if prob or init != ini or (len(fin) != (ini != fi)) or term != 1 or (fin and not eng.valid(fin[0].e == sw.tv[i])):
                bad.append(f'input {i} value {vals[i]}: waveform {ws} does not encode (initial, time, final)')
        return 1
    try: eng.explore(fn)
    except EngineUnknown as e: rep.error(str(e))
    rep.counts['boundary_paths'] += eng.npaths; rep.counts['paths'] += eng.npaths; rep.counts['obligations'] += 2
    if bad:
        data = {'mode': 'boundary', 'cls': cls, 'vals': list(vals)}
        ok, what = replay(data)
        if ok: rep.violation(f's_to_c/{cls}', what, data)
        else: rep.error(f'boundary {cls} {vals}: {bad[0]} (does not replay)')
    else: rep.counts['discharged'] += 2
    return rep


# ------------------------------------------------------------------------------------------------ end-to-end

E6 = netlist.NL('e6', [('a', 'in'), ('b', 'in'), ('c', 'in'), ('d', 'in'), ('y', 'out')],
                [('g1', 'XNOR4', ['x'], ['a', 'b', 'c', 'd']), ('ff', 'DFF', ['q', None], ['x']), ('g2', 'INV1', ['y'], ['x']), ('g3', 'BUF1', [None], ['q'])])


E7 = netlist.NL('e7_bench', [('x', 'in'), ('y', 'in'), ('a', 'out'), ('p', 'out'), ('q', 'out')],
                [('g0', 'NAND2', ['a'], ['x', 'y']), ('g1', 'INV1', ['p'], ['a']), ('g2', 'AND2', ['q'], ['a', 'x'])])       # bench style: the port 'a' has a driver and two readers


def style_of(nl): return 'bench' if nl.name.endswith('_bench') else 'verilog'


def caps_of(c, caps):
    """capacity argument: int, or ('stem', big, small): lines driven by cells get `big`, all other lines `small`"""
    if not isinstance(caps, (tuple, list)): return caps
    _, big, small = caps
    return [big if (i < len(c.lines) and c.lines[i].driver.kind not in ('__fork__', 'input')) else small for i in range(len(c.lines) + 3)]


E2E_NLS = [
    netlist.NL('e1', [('a', 'in'), ('b', 'in'), ('z', 'out'), ('y', 'out')], [('g1', 'AND2', ['x'], ['a', 'b']), ('g2', 'INV1', ['z'], ['x']), ('g3', 'XOR2', ['y'], ['x', 'a'])]),
    netlist.NL('e2', [('a', 'in'), ('b', 'in'), ('z', 'out')], [('g1', 'NAND2', ['x'], ['a', 'b']), ('g2', 'NOR2', ['y'], ['a', 'x']), ('g3', 'XNOR2', ['z'], ['x', 'y'])]),
    netlist.NL('e3', [('a', 'in'), ('s', 'in'), ('z', 'out')], [('g1', 'INV1', ['n'], ['a']), ('g2', 'MUX21', ['z'], ['a', 'n', 's'])]),
    netlist.NL('e4', [('a', 'in'), ('z', 'out')], [('f', 'DFF', ['q', 'qn'], ['d']), ('g1', 'XOR2', ['d'], ['q', 'a']), ('g2', 'OR2', ['z'], ['qn', 'a'])]),
    netlist.NL('e5', [('a', 'in'), ('b', 'in'), ('z', 'out')], [('g1', 'XOR2', ['x'], ['a', 'b']), ('g2', 'XOR2', ['y'], ['x', 'a']), ('g3', 'XOR2', ['z'], ['y', 'x'])]),
]


def e2e_jobs(tier, seed, lemmas, light=False):
    J = []
    stims = {2: ['RF', 'RR', 'F1', '0R', 'FR'], 3: ['RFR', 'R10', 'FF1']}
    for k, nl in enumerate(E2E_NLS if tier == 'thorough' else E2E_NLS[:4]):
        c = netlist.build(nl, 'verilog')
        n_in = len([1 for n in c.s_nodes if any(l is not None for l in n.outs)])
        for cls in ('cpu', 'gpu'):
            for caps in (4, 8):
                sts = (stims[2] if n_in <= 2 else stims[3])[:(5 if tier == 'thorough' else 2)]
                if light and tier == 'quick':
                    if caps == 4 or (k + (cls == 'gpu')) % 2: continue
                    sts = sts[1:2]
                for st in sts:
                    J.append((nl.to_json(), cls, caps, st, tuple(sorted(lemmas)), ()))
    return J


def _in_slots(c):
    """positions of primary inputs and state elements (nodes that drive something and are not themselves driven ports)"""
    return [i for i, n in enumerate(c.s_nodes) if any(l is not None for l in n.outs) and (ref2.is_state(n.kind) or not any(l is not None for l in n.ins))]


def sta(c, sw, stim):
    """arrival windows per line as z3 terms: {line index: (amin, amax)} or None where no transition can arrive"""
    win = {}
    sn = c.s_nodes
    pos = {id(n): i for i, n in enumerate(sn)}

    def zmin(a, b): return z3.If(a <= b, a, b)
    def zmax(a, b): return z3.If(a >= b, a, b)

    def line(l):
        if l.index in win: return win[l.index]
        n = l.driver
        if id(n) in pos and (ref2.is_state(n.kind) or len(n.ins) == 0 or n.ins[0] is None):
            i = pos[id(n)]
            r = (sw.tv[i], sw.tv[i]) if stim.get(i, '0') in 'RF' else None
        else:
            r = None
            for il in n.ins:
                if il is None: continue
                a = line(il)
                if a is None: continue
                ds = [sw.dv[(0, il.index, p, q)] for p in range(2) for q in range(2)]
                dmin, dmax = ds[0], ds[0]
                for d in ds[1:]: dmin, dmax = zmin(dmin, d), zmax(dmax, d)
                cand = (a[0] + dmin, a[1] + dmax)
                r = cand if r is None else (zmin(r[0], cand[0]), zmax(r[1], cand[1]))
        win[l.index] = r
        return r
    for l in c.lines: line(l)
    return win


def e2e_job(job):
    nlj, cls, caps, st, lemmas, optt = job
    opts = dict(optt)
    rep = common.Report()
    nl = netlist.NL.from_json(nlj)
    c = netlist.build(nl, style_of(nl))
    ins = _in_slots(c)
    stim = {i: st[k] for k, i in enumerate(ins)}
    eng = Engine(timeout_ms=60000, deadline_s=600)
    sn = c.s_nodes
    found = {}
    a0 = {i: VAL[stim.get(i, '0')][0] for i in range(len(sn))}
    a1 = {i: VAL[stim.get(i, '0')][1] for i in range(len(sn))}
    r0 = ref2.Ref2(c, a0, 0, 1); r1 = ref2.Ref2(c, a1, 0, 1)
    cap0, cap1 = r0.captured(), r1.captured()
    lv8 = None
    if 'HAZ' in lemmas:
        ls = LogicSim(c, 1, m=8)
        mv = np.full((ls.s_len, 1), logic.UNASSIGNED, dtype=np.uint8)
        for i, v in stim.items(): mv[i, 0] = {'0': logic.ZERO, '1': logic.ONE, 'R': logic.RISE, 'F': logic.FALL}[v]
        ls.s[0] = logic.mv_to_bp(mv); ls.s_to_c(); ls.c_prop(); ls.c_to_s()
        lv8 = logic.bp_to_mv(ls.s[1])[:, 0]

    def fn(eng):
        sw = SymWave(eng, cls, c, caps, stim, opts).run()
        bad = []
        win = sta(c, sw, stim) if 'STA' in lemmas else None
        for l in (c.lines if not opts.get('c_reuse') else []):
            prob, init, fin, term = decode(sw.line_wave(l.index))
            if prob: bad.append(('WF', f'line {l.index}: {prob}')); continue
            if 'BOOL' in lemmas:
                e0, e1 = r0.line(l) & 1, r1.line(l) & 1
                if init != e0 or (init + len(fin)) & 1 != e1: bad.append(('BOOL', f'line {l.index}: waveform starts at {init} ends at {(init + len(fin)) & 1}, netlist function gives {e0} -> {e1}'))
            if win is not None and fin:
                a = win[l.index]
                if a is None: bad.append(('STA', f'line {l.index}: transitions although no input transition can reach it'))
                elif not eng.valid(z3.And([z3.And(a[0] <= x.e, x.e <= a[1]) for x in fin])): bad.append(('STA', f'line {l.index}: a transition lies outside the static-timing window'))
        for i in sw.w.poppo_s_locs:
            i = int(i)
            s3, s4, s5, s6, s10 = (sw.w.s[k, i, 0] for k in (3, 4, 5, 6, 10))
            if 'BOOL' in lemmas and i in cap0 and (int(s3) != cap0[i] & 1 or int(s6) != cap1[i] & 1):
                bad.append(('BOOL', f'{sn[i].name}: captured initial/final {int(s3)}/{int(s6)}, netlist function gives {cap0[i] & 1}/{cap1[i] & 1}'))
            if 'HAZ' in lemmas and lv8 is not None and i in cap0:
                v8 = int(lv8[i])
                if v8 in (1, 2): bad.append(('HAZ', f'{sn[i].name}: 8-valued simulation reports unknown for a 0/1/R/F stimulus'))
                elif int(s3) != (v8 >> 1) & 1 or int(s6) != v8 & 1: bad.append(('HAZ', f'{sn[i].name}: timing sim initial/final {int(s3)}/{int(s6)} vs 8-valued value {v8}'))
                elif v8 in (0, 3):
                    _, init, fin, _ = decode(sw.line_wave(sn[i].ins[0].index))
                    if fin: bad.append(('HAZ', f'{sn[i].name}: 8-valued simulation reports hazard-free constant but the waveform has {len(fin)} transitions'))
            if 'STA' in lemmas and i in cap0:
                a = win[sn[i].ins[0].index]
                s4, s5 = T.lift(s4), T.lift(s5)
                _, _, finw, _ = decode(sw.line_wave(sn[i].ins[0].index))
                if finw:
                    if s4.c != 0 or s5.c != 0: bad.append(('STA', f'{sn[i].name}: the waveform has transitions but earliest arrival / latest stabilisation are not finite times'))
                    elif a is None or not eng.valid(z3.And(s4.e >= a[0], s5.e <= a[1], s4.e <= s5.e)): bad.append(('STA', f'{sn[i].name}: earliest arrival / latest stabilisation outside the static-timing window'))
                elif s4.c != 1 or s5.c != -1: bad.append(('STA', f'{sn[i].name}: no transition on the output but earliest arrival / latest stabilisation report one'))
        if 'OVLID' in lemmas:
            sw2 = SymWave(eng, cls, c, 64, stim, {}, dvars=sw.dv, tvars=sw.tv).run()
            for i in sw.w.poppo_s_locs:
                i = int(i)
                if i not in cap0: continue
                if int(sw.w.s[10, i, 0]) == 0:
                    _, i1, f1, t1 = decode(sw.line_wave(sn[i].ins[0].index)); _, i2, f2, t2 = decode(sw2.line_wave(sn[i].ins[0].index))
                    if i1 != i2 or len(f1) != len(f2) or not all(eng.valid(x.e == y.e) for x, y in zip(f1, f2)):
                        bad.append(('OVLID', f'{sn[i].name}: overflow indicator clear but waveform differs from the unlimited-capacity run'))
        tc = z3.Real('tcap_e2e')
        if not bad and ('BOOL' in lemmas or 'HAZ' in lemmas) and sum(ch in 'RF' for ch in st) <= 2:          # (more input transitions multiply the capture paths: E6 took 300 s)
            # the same results when the capture time argument is a finite symbolic time: initial / final value, arrival times and the
            # overflow indicator describe the whole waveform, whatever the observation time
            eng.assume(tc >= -200, tc <= 400)
            keep = {(k, int(i)): sw.w.s[k, int(i), 0] for i in sw.w.poppo_s_locs for k in (3, 4, 5, 6, 10)}
            sw.w.c_to_s(time=T(0, tc))
            for (k, i), old in keep.items():
                new = sw.w.s[k, i, 0]
                if isinstance(old, T) or isinstance(new, T):
                    a, b = T.lift(old), T.lift(new)
                    same = a.c == b.c and (a.c != 0 or eng.valid(a.e == b.e))
                else: same = float(old) == float(new)
                if not same:
                    bad.append(('CAPT', f'{sn[i].name}: s[{k}] = {new} when captured at a finite time, {old} with the default capture time')); break
        rep.counts['obligations'] += len(lemmas)
        if not bad:
            rep.counts['discharged'] += len(lemmas)
            return 1
        for lemma, detail in bad:
            if lemma in found: continue
            mdl = grid_model(eng, list(sw.dv.values()) + list(sw.tv.values()) + ([tc] if lemma == 'CAPT' else []))
            found[lemma] = ({'mode': 'e2e', 'nl': nlj, 'cls': cls, 'caps': caps, 'stim': st, 'lemma': lemma, 'opts': opts, 'tcap': fr(mdl, tc) if lemma == 'CAPT' else None,
                             'dvals': [[list(k), fr(mdl, v)] for k, v in sw.dv.items()], 'tvals': [[k, fr(mdl, v)] for k, v in sw.tv.items()]}, detail)
        return 0
    try:
        eng.explore(fn)
    except EngineUnknown as e:
        rep.note(f'e2e {nl.name} {cls} caps={caps} stim={st}: not covered ({e})')
    except Exception as e:
        import traceback
        rep.error(f'e2e {nl.name} {cls} caps={caps} stim={st}: {type(e).__name__}: {e} {traceback.format_exc()[-400:]}')
    rep.counts['e2e_paths'] += eng.npaths; rep.counts['paths'] += eng.npaths; rep.counts['branches'] += eng.nbranches
    rep.solver_s += eng.tsolve
    for lemma, (data, detail) in found.items():
        ok, what = replay(data)
        if ok: rep.violation(f'e2e={lemma}/{nl.name}/{cls}', f'{nl.name} ({cls}, caps={caps}, stimulus {st}): {detail}; replay: {what}', data)
        else: rep.error(f'e2e {nl.name} {lemma}: {detail} - counterexample does not replay')
    if eng.complete and not found:
        rep.sample({'circuit': nl.name, 'simulator': cls, 'capacity': caps, 'stimulus': st, 'lemmas': list(lemmas), 'paths': eng.npaths, 'verdict': 'valid on all paths'})
    return rep


def replay(data):
    if data['mode'] == 'glue':
        r = glue_job((data['recipe'], data['reuse'], data['strip']))
        return bool(r.violations), r.violations[0]['what'] if r.violations else 'ok'
    if data['mode'] == 'boundary':
        nl = netlist.NL('b', [('a', 'in'), ('b', 'in'), ('z', 'out')], [('g', 'AND2', ['z'], ['a', 'b'])])
        c = netlist.build(nl, 'verilog')
        d0 = np.zeros((1, len(c.lines), 2, 2), dtype=np.float32)
        w = CLS[data['cls']](c, d0, sims=1, c_caps=8)
        for i, v in enumerate(data['vals']):
            loc = int(w.c_locs[w.ppi_offset + i])
            w.c[loc:loc + 4, 0] = [7.0, float(TMIN) if i else 9.0, 11.0, float(TMAX_OVL)]        # left-overs of an earlier stimulus
            w.s[0, i, 0], w.s[2, i, 0] = VAL[v]; w.s[1, i, 0] = [1.5, -2.25][i]
        w.s_to_c()
        for i in (0, 1):
            loc = int(w.c_locs[w.ppi_offset + i])
            prob, init, fin, term = decode_f([w.c[loc + j, 0] for j in range(4)])
            ini, fi = VAL[data['vals'][i]]
            if prob or init != ini or fin != ([[1.5], [-2.25]][i] if ini != fi else []) or term != 'max':
                return True, f's_to_c: input {i} value {data["vals"][i]} encoded as {[float(w.c[loc + j, 0]) for j in range(4)]}'
        return False, 'ok'
    nl = netlist.NL.from_json(data['nl'])
    c = netlist.build(nl, style_of(nl))
    ins = _in_slots(c)
    stim = {i: data['stim'][k] for k, i in enumerate(ins)}
    dvals = {tuple(k): v for k, v in data['dvals']}; tvals = {int(k): v for k, v in data['tvals']}
    try:
        w = concrete_wave(data['cls'], c, tuple(data['caps']) if isinstance(data['caps'], list) else data['caps'], stim, data.get('opts', {}), dvals, tvals)
    except Exception as e:
        return True, f'{type(e).__name__}: {e}'
    sn = c.s_nodes
    a0 = {i: VAL[stim.get(i, '0')][0] for i in range(len(sn))}; a1 = {i: VAL[stim.get(i, '0')][1] for i in range(len(sn))}
    r0 = ref2.Ref2(c, a0, 0, 1); r1 = ref2.Ref2(c, a1, 0, 1)
    lemma = data['lemma']
    for l in (c.lines if not data.get('opts', {}).get('c_reuse') else []):
        loc, cap = int(w.c_locs[l.index]), int(w.c_caps[l.index])
        prob, init, fin, term = decode_f([w.c[loc + j, 0] for j in range(cap)])
        if prob: return True, f'line {l.index}: {prob}'
        if lemma == 'BOOL' and (init != r0.line(l) & 1 or (init + len(fin)) & 1 != r1.line(l) & 1): return True, f'line {l.index}: {init}->{(init + len(fin)) & 1} vs netlist {r0.line(l) & 1}->{r1.line(l) & 1}'
    cap0, cap1 = r0.captured(), r1.captured()
    for i in w.poppo_s_locs:
        i = int(i)
        if i not in cap0: continue
        if lemma == 'BOOL' and (int(w.s[3, i, 0]) != cap0[i] & 1 or int(w.s[6, i, 0]) != cap1[i] & 1): return True, f'{sn[i].name}: captured {w.s[3, i, 0]}/{w.s[6, i, 0]}'
    if lemma == 'CAPT':
        w2 = concrete_wave(data['cls'], c, tuple(data['caps']) if isinstance(data['caps'], list) else data['caps'], stim, data.get('opts', {}), dvals, tvals, capture_time=np.float32(data['tcap']))
        for i in w.poppo_s_locs:
            for k in (3, 4, 5, 6, 10):
                if float(w.s[k, int(i), 0]) != float(w2.s[k, int(i), 0]):
                    return True, f'{sn[int(i)].name}: s[{k}] = {float(w2.s[k, int(i), 0])} when captured at time {data["tcap"]}, {float(w.s[k, int(i), 0])} with the default capture time'
    if lemma == 'HAZ':
        ls = LogicSim(c, 1, m=8)
        mv = np.full((ls.s_len, 1), logic.UNASSIGNED, dtype=np.uint8)
        for i, v in stim.items(): mv[i, 0] = {'0': logic.ZERO, '1': logic.ONE, 'R': logic.RISE, 'F': logic.FALL}[v]
        ls.s[0] = logic.mv_to_bp(mv); ls.s_to_c(); ls.c_prop(); ls.c_to_s()
        lv8 = logic.bp_to_mv(ls.s[1])[:, 0]
        for i in w.poppo_s_locs:
            i = int(i)
            if i not in cap0: continue
            v8 = int(lv8[i])
            loc, cap = int(w.c_locs[sn[i].ins[0].index]), int(w.c_caps[sn[i].ins[0].index])
            _, init, fin, _ = decode_f([w.c[loc + j, 0] for j in range(cap)])
            if v8 in (1, 2) or int(w.s[3, i, 0]) != (v8 >> 1) & 1 or int(w.s[6, i, 0]) != v8 & 1 or (v8 in (0, 3) and fin):
                return True, f'{sn[i].name}: 8-valued value {v8}, timing sim {w.s[3, i, 0]}->{w.s[6, i, 0]} with transitions {fin}'
    if lemma in ('STA', 'OVLID'):
        # concrete static timing / unlimited capacity comparison
        if lemma == 'OVLID':
            w2 = concrete_wave(data['cls'], c, 64, stim, {}, dvals, tvals)
            for i in w.poppo_s_locs:
                i = int(i)
                if i not in cap0 or w.s[10, i, 0] != 0: continue
                l = sn[i].ins[0].index
                a = decode_f([w.c[int(w.c_locs[l]) + j, 0] for j in range(int(w.c_caps[l]))]); b = decode_f([w2.c[int(w2.c_locs[l]) + j, 0] for j in range(int(w2.c_caps[l]))])
                if a[1:3] != b[1:3]: return True, f'{sn[i].name}: indicator clear, waveform {a[2]} vs unlimited {b[2]}'
        else:
            win = {}
            pos = {id(n): i for i, n in enumerate(sn)}

            def line(l):
                if l.index in win: return win[l.index]
                n = l.driver
                if id(n) in pos and (ref2.is_state(n.kind) or len(n.ins) == 0 or n.ins[0] is None):
                    i = pos[id(n)]
                    r = (tvals.get(i, 0.0), tvals.get(i, 0.0)) if stim.get(i, '0') in 'RF' else None
                else:
                    r = None
                    for il in n.ins:
                        if il is None: continue
                        a = line(il)
                        if a is None: continue
                        ds = [dvals.get((0, il.index, p, q), 0.0) for p in range(2) for q in range(2)]
                        cand = (a[0] + min(ds), a[1] + max(ds))
                        r = cand if r is None else (min(r[0], cand[0]), max(r[1], cand[1]))
                win[l.index] = r
                return r
            for l in c.lines:
                a = line(l)
                loc, cap = int(w.c_locs[l.index]), int(w.c_caps[l.index])
                _, init, fin, _ = decode_f([w.c[loc + j, 0] for j in range(cap)])
                for x in fin:
                    if a is None or x < a[0] - 1e-4 or x > a[1] + 1e-4: return True, f'line {l.index}: transition at {x} outside static-timing window {a}'
            for i in w.poppo_s_locs:
                i = int(i)
                if i not in cap0: continue
                l = sn[i].ins[0].index
                _, init, fin, _ = decode_f([w.c[int(w.c_locs[l]) + j, 0] for j in range(int(w.c_caps[l]))])
                s4, s5 = float(w.s[4, i, 0]), float(w.s[5, i, 0])
                want = (min(fin), max(fin)) if fin else (float(TMAX), float(TMIN))
                if (s4, s5) != want: return True, f'{sn[i].name}: earliest arrival / latest stabilisation {(s4, s5)}, the waveform {fin} gives {want}'
    return False, 'no mismatch'


# ------------------------------------------------------------------------------------------------ glue obligations (induction over the op list)

def glue_jobs(tier, seed):
    """the circuit-level lifting of the kernel lemmas relies on the schedule and memory-map obligations of C07/C08; they are re-discharged
    here on a reduced corpus so that every timing check is self-contained"""
    nls = netlist.g2_shapes() + netlist.g3_random(seed, 12 if tier == 'quick' else 60)
    J = []
    for j, nl in enumerate(nls):
        for reuse, strip in ((False, False), (True, True), (True, False), (False, True)):
            J.append((('nl', nl.to_json(), ('verilog', 'bench', 'lean')[j % 3]), reuse, strip))
    return J


def glue_job(item):
    from . import tables
    from kyupy.sim import SimOps
    recipe, reuse, strip = item
    rep = common.Report()
    c = netlist.from_recipe(recipe)
    name = recipe[1]['name']
    import random as _r
    caps = [4 * _r.Random(f'{name}/{k}').randint(1, 4) for k in range(len(c.lines) + 3)]
    try: so = SimOps(c, c_caps=caps, c_caps_min=4, c_reuse=reuse, strip_forks=strip)
    except Exception as e:
        if 'too many indices' in str(e): return rep
        rep.violation(f'glue/exception={type(e).__name__}', f'{name} c_reuse={reuse} strip_forks={strip}: SimOps raised {type(e).__name__}: {e}', {'mode': 'glue', 'recipe': recipe, 'reuse': reuse, 'strip': strip}); return rep
    tb = tables.Tables(so, c, strip)
    data = {'mode': 'glue', 'recipe': recipe, 'reuse': reuse, 'strip': strip}
    for qn, qf in (('same-level-conflict', tb.q_same_level_conflict), ('operand-not-ready', tb.q_operand_not_ready), ('live-overlap', tb.q_live_overlap)):
        r, wit, dt = qf()
        rep.solver_s += dt; rep.counts['queries_' + str(r)] += 1; rep.counts['obligations'] += 1; rep.counts['glue_queries'] += 1
        if r == z3.unsat: rep.counts['discharged'] += 1
        elif r == z3.sat: rep.violation(f'glue/{qn}', f'{name} c_reuse={reuse} strip_forks={strip}: {qn}: {wit}', data)
        else: rep.error(f'glue {name}: {r}')
    probs = tb.alias_problems(caps, 4)
    rep.counts['obligations'] += 1
    if probs: rep.violation('glue/alias', f'{name} c_reuse={reuse} strip_forks={strip}: {probs[0]}', data)
    else: rep.counts['discharged'] += 1
    return rep
