"""numpy shim for bit (un)packing on symbolic data (used only where kyupy calls numpy's C-level bit packing).

SymArr: object ndarray of z3 bit-vector terms that remembers the numpy dtype it stands for (itemsize, view()).
SymNP : proxy for the module-level name `np` of a kyupy module; forwards everything to numpy except packbits /
        unpackbits, which are re-implemented from numpy's documented contract on z3 terms (Extract / Concat, little
        bit order, axis handling, zero padding of the last group).  Each stub is differentially tested against real
        numpy on the shapes used by a run (see selfcheck) before it is trusted."""
import numpy as np
import z3


class SymArr(np.ndarray):
    """object array of BitVec terms standing for an integer array of dtype `sdt`"""

    def __new__(cls, arr, sdt):
        o = np.asarray(arr, dtype=object).view(cls)
        o.sdt = np.dtype(sdt)
        return o

    def __array_finalize__(self, obj):
        self.sdt = getattr(obj, 'sdt', np.dtype(np.uint8))

    @property
    def itemsize(self): return self.sdt.itemsize

    @property
    def dtype(self): return self.sdt          # what the code under analysis sees (byteorder, kind, itemsize); storage stays object

    def astype(self, dt, *a, **k):
        dt = np.dtype(dt)
        if dt == object: return np.asarray(self, dtype=object)
        if dt.itemsize == self.sdt.itemsize and dt.kind == self.sdt.kind: return SymArr(np.asarray(self, dtype=object), dt)      # same values, other byte order
        raise NotImplementedError(f'astype {self.sdt} -> {dt}')

    def byteswap(self, inplace=False):
        assert not inplace
        n = self.sdt.itemsize
        out = np.empty(self.shape, dtype=object)
        for idx in np.ndindex(self.shape):
            x = bvw(np.ndarray.__getitem__(self, idx), 8 * n)
            out[idx] = x if n == 1 else z3.simplify(z3.Concat(*[z3.Extract(8 * b + 7, 8 * b, x) for b in range(n)]))
        return SymArr(out, self.sdt)

    def view(self, *a, **k):
        if not a and not k: return self
        dt = a[0] if a else k.get('dtype')
        if isinstance(dt, type) and issubclass(dt, np.ndarray): return np.ndarray.view(self, dt)
        dt = np.dtype(dt)
        if dt.itemsize == self.sdt.itemsize:
            return SymArr(np.asarray(self, dtype=object), dt)
        flat_shape = self.shape
        if self.sdt.itemsize > 1 and dt.itemsize == 1:        # split items into bytes, little endian, last axis grows
            w = 8 * self.sdt.itemsize
            out = np.empty(flat_shape[:-1] + (flat_shape[-1] * self.sdt.itemsize,), dtype=object)
            for idx in np.ndindex(flat_shape):
                x = bvw(np.ndarray.__getitem__(self, idx), w)
                n = self.sdt.itemsize
                for b in range(n):
                    bb = n - 1 - b if self.sdt.byteorder == '>' else b          # big-endian storage: most significant byte first
                    out[idx[:-1] + (idx[-1] * n + b,)] = z3.simplify(z3.Extract(8 * bb + 7, 8 * bb, x))
            return SymArr(out, dt)
        if self.sdt.itemsize == 1 and dt.itemsize > 1:        # combine bytes, last axis shrinks
            k_ = dt.itemsize
            assert flat_shape[-1] % k_ == 0, 'view: last axis not divisible'
            out = np.empty(flat_shape[:-1] + (flat_shape[-1] // k_,), dtype=object)
            for idx in np.ndindex(out.shape):
                bs = [bvw(np.ndarray.__getitem__(self, idx[:-1] + (idx[-1] * k_ + b,)), 8) for b in range(k_)]
                if dt.byteorder == '>': bs = bs[::-1]
                out[idx] = z3.simplify(z3.Concat(*reversed(bs)))
            return SymArr(out, dt)
        raise NotImplementedError(f'view {self.sdt} -> {dt}')


def bvw(x, w):
    """element -> BitVec of width w (ints wrap; narrower terms are zero-extended, wider truncated)"""
    if z3.is_bv(x):
        if x.size() == w: return x
        return z3.ZeroExt(w - x.size(), x) if x.size() < w else z3.Extract(w - 1, 0, x)
    return z3.BitVecVal(int(x) % (1 << w), w)


def bit1(x):
    """a 'bit' element (0/1 int, bool, BV1 or wider BV holding 0/1) -> BV1"""
    if z3.is_bv(x): return x if x.size() == 1 else z3.Extract(0, 0, x)
    return z3.BitVecVal(1 if x else 0, 1)


class SymNP:
    def __getattr__(self, n): return getattr(np, n)

    @staticmethod
    def unpackbits(a, axis=None, count=None, bitorder='big'):
        if not isinstance(a, SymArr): return np.unpackbits(a, axis=axis, count=count, bitorder=bitorder)
        assert a.sdt.itemsize == 1, 'np.unpackbits needs uint8 input'
        assert count is None
        arr = np.asarray(a, dtype=object)
        if axis is None:
            arr = arr.reshape(-1); axis_ = 0
        else:
            axis_ = axis % arr.ndim
        arr = np.moveaxis(arr, axis_, -1)
        out = np.empty(arr.shape[:-1] + (arr.shape[-1] * 8,), dtype=object)
        for idx in np.ndindex(arr.shape):
            x = bvw(arr[idx], 8)
            for k in range(8):
                bitpos = k if bitorder == 'little' else 7 - k
                out[idx[:-1] + (idx[-1] * 8 + k,)] = z3.simplify(z3.Extract(bitpos, bitpos, x))
        out = np.moveaxis(out, -1, axis_)
        return SymArr(out, np.uint8)

    @staticmethod
    def packbits(a, axis=None, bitorder='big'):
        if not isinstance(a, SymArr) and not (isinstance(a, np.ndarray) and a.dtype == object):
            return np.packbits(a, axis=axis, bitorder=bitorder)
        arr = np.asarray(a, dtype=object)
        if axis is None:
            arr = arr.reshape(-1); axis_ = 0
        else:
            axis_ = axis % arr.ndim
        arr = np.moveaxis(arr, axis_, -1)
        n = arr.shape[-1]
        nb = (n + 7) // 8
        out = np.empty(arr.shape[:-1] + (nb,), dtype=object)
        for idx in np.ndindex(out.shape):
            bits = [bit1(arr[idx[:-1] + (idx[-1] * 8 + k,)]) if idx[-1] * 8 + k < n else z3.BitVecVal(0, 1) for k in range(8)]
            if bitorder == 'big': bits = bits[::-1]
            out[idx] = z3.simplify(z3.Concat(*reversed(bits)))          # bits[0] is the least significant
        out = np.moveaxis(out, -1, axis_)
        return SymArr(out, np.uint8)


def selfcheck(shapes, rng):
    """differential test of the stubs against real numpy on concrete data of the given shapes -> list of problems"""
    probs = []
    snp = SymNP()

    def val(a): return np.array([z3.simplify(bvw(x, 64)).as_long() for x in np.asarray(a, dtype=object).reshape(-1)], dtype=np.uint64).reshape(np.shape(a))
    for shp in shapes:
        data = rng.integers(0, 256, shp, dtype=np.uint8)
        sa = SymArr(np.vectorize(lambda v: z3.BitVecVal(int(v), 8), otypes=[object])(data), np.uint8)
        for axis in [None] + list(range(-len(shp), len(shp))):
            for order in ('little', 'big'):
                r = np.unpackbits(data, axis=axis, bitorder=order); s_ = snp.unpackbits(sa, axis=axis, bitorder=order)
                if r.shape != s_.shape or not np.array_equal(r, val(s_).astype(np.uint8)): probs.append(f'unpackbits shape={shp} axis={axis} {order}')
                bits = rng.integers(0, 2, shp, dtype=np.uint8)
                sb = SymArr(np.vectorize(lambda v: z3.BitVecVal(int(v), 1), otypes=[object])(bits), np.uint8)
                r = np.packbits(bits, axis=axis, bitorder=order); s_ = snp.packbits(sb, axis=axis, bitorder=order)
                if r.shape != s_.shape or not np.array_equal(r, val(s_).astype(np.uint8)): probs.append(f'packbits shape={shp} axis={axis} {order}')
    for dt in (np.uint16, np.int16, np.uint32, np.int32, np.uint64, np.int64, np.int8, '>u2', '>i4', '>u8'):
        data = rng.integers(0, 200, (2, 3)).astype(dt)
        w = 8 * np.dtype(dt).itemsize
        sa = SymArr(np.vectorize(lambda v: z3.BitVecVal(int(v), w), otypes=[object])(data), dt)
        r = data.view(np.uint8); s_ = sa.view(np.uint8)
        if r.shape != s_.shape or not np.array_equal(r, val(s_).astype(np.uint8)): probs.append(f'view {dt}->uint8')
        r = data.byteswap(); s2 = sa.byteswap()
        if [int(v) % (1 << w) for v in r.reshape(-1)] != [int(v) for v in val(s2).reshape(-1)] or sa.dtype != data.dtype: probs.append(f'byteswap {dt}')
        odt = data.dtype.newbyteorder('>' if data.dtype.byteorder != '>' else '<')
        r = data.astype(odt); s3 = sa.astype(odt)
        if [int(v) % (1 << w) for v in r.reshape(-1)] != [int(v) for v in val(s3).reshape(-1)] or not np.array_equal(r.view(np.uint8), val(s3.view(np.uint8)).astype(np.uint8)): probs.append(f'astype {dt} -> {odt}')
        back = s_.view(dt)
        if back.shape != data.shape or [int(v) % (1 << w) for v in data.reshape(-1)] != [int(v) % (1 << w) for v in val(back).reshape(-1)]: probs.append(f'view uint8->{dt}')
    return probs
