"""E3 - the table engine: SMT queries over the tables the real SimOps publishes (ops, level_starts/stops, c_locs, c_caps, c_len).
Free variables are op indices, line indices and memory cells; the tables are finite z3 functions.  unsat = no pair / cell exists."""
import time

import numpy as np
import z3

from . import ref2


def _tab(name, vals):
    f = z3.Function(name, z3.IntSort(), z3.IntSort())
    return f, [f(k) == int(v) for k, v in enumerate(vals)]


class Tables:
    def __init__(self, so, circuit, strip_forks):
        self.so, self.c = so, circuit
        ops = np.asarray(so.ops)
        if ops.ndim != 2: ops = ops.reshape(0, 9)
        self.ops = ops
        self.n = len(ops)
        self.nl = len(circuit.lines)
        self.N = so.c_locs_len
        lvl = np.zeros(self.n, dtype=int)
        for L, (a, b) in enumerate(zip(so.level_starts, so.level_stops)): lvl[a:b] = L + 1
        self.lvl = lvl
        # independent stem map (a branch of a stripped fork reads its stem's memory)
        self.stem = list(range(self.N))
        if strip_forks:
            for f in circuit.forks.values():
                if len(f.ins) == 0 or f.ins[0] is None: continue
                l = f.ins[0]
                while l.driver.kind == '__fork__' and len(l.driver.ins) > 0 and l.driver.ins[0] is not None: l = l.driver.ins[0]
                for ol in f.outs:
                    if ol is not None: self.stem[ol.index] = l.index
        self.loc = [int(x) for x in so.c_locs]
        self.cap = [int(x) for x in so.c_caps]
        self.special = {so.zero_idx, so.tmp_idx, so.tmp2_idx}

    def solver(self, rep=None):
        s = z3.Solver()
        s.set('timeout', 120000)
        return s

    CHUNK = 300

    def _level_chunks(self):
        """groups of consecutive whole levels with at most ~CHUNK ops each"""
        groups, cur = [], []
        for a, b in zip(self.so.level_starts, self.so.level_stops):
            if cur and len(cur) + (b - a) > self.CHUNK: groups.append(cur); cur = []
            cur = cur + list(range(int(a), int(b)))
        if cur: groups.append(cur)
        return groups

    def chunked(self, which):
        """large op lists: the query is split into sub-queries over groups of whole levels (Q1) / blocks of ops (Q2); same verdict"""
        tot = 0.0
        if self.n <= 2 * self.CHUNK:
            return (self.q_same_level_conflict if which == 'q1' else self.q_operand_not_ready)()
        groups = self._level_chunks() if which == 'q1' else [list(range(k, min(self.n, k + self.CHUNK))) for k in range(0, self.n, self.CHUNK)]
        full_ops, full_lvl, full_n = self.ops, self.lvl, self.n
        try:
            for g in groups:
                self.ops, self.lvl, self.n = full_ops[g], full_lvl[g], len(g)
                r, wit, dt = (self.q_same_level_conflict if which == 'q1' else self._q2_sub)(*(() if which == 'q1' else (full_ops, full_lvl)))
                tot += dt
                if r != z3.unsat:
                    if r == z3.sat and which == 'q1': wit = (g[wit[0]], g[wit[1]])
                    return r, wit, tot
        finally:
            self.ops, self.lvl, self.n = full_ops, full_lvl, full_n
        return z3.unsat, None, tot

    def _q2_sub(self, full_ops, full_lvl):
        return self.q_operand_not_ready(full_ops=full_ops, full_lvl=full_lvl)

    # ------------------------------------------------------------------ C07 Q1: same-level conflicts
    def q_same_level_conflict(self):
        """exists i != j in the same level: the region written by i overlaps a region read or written by j
        (two ops that both write the scratch slot of unconnected outputs are exempt)."""
        if self.n < 2: return z3.unsat, None, 0.0
        so, ops = self.so, self.ops
        I, J = z3.Int('i'), z3.Int('j')
        cons = []
        LV, c0 = _tab('lvl', self.lvl); cons += c0
        WL, c0 = _tab('wl', [self.loc[self.stem[o[1]]] for o in ops]); cons += c0
        WC, c0 = _tab('wc', [self.cap[self.stem[o[1]]] for o in ops]); cons += c0
        TW, c0 = _tab('tw', [int(o[1] == so.tmp_idx) for o in ops]); cons += c0
        RL, RC = [], []
        for k in range(4):
            f, c0 = _tab(f'rl{k}', [self.loc[self.stem[o[2 + k]]] for o in ops]); cons += c0; RL.append(f)
            f, c0 = _tab(f'rc{k}', [self.cap[self.stem[o[2 + k]]] for o in ops]); cons += c0; RC.append(f)
        ov = lambda l1, c1, l2, c2: z3.And(l1 < l2 + c2, l2 < l1 + c1)
        s = self.solver()
        s.add(cons)
        s.add(I >= 0, I < self.n, J >= 0, J < self.n, I != J, LV(I) == LV(J))
        rw = z3.Or([ov(WL(I), WC(I), RL[k](J), RC[k](J)) for k in range(4)])
        ww = z3.And(ov(WL(I), WC(I), WL(J), WC(J)), z3.Not(z3.And(TW(I) == 1, TW(J) == 1)))
        s.add(z3.Or(rw, ww))
        t = time.time(); r = s.check(); dt = time.time() - t
        if r == z3.sat:
            m = s.model()
            return r, (m.eval(I).as_long(), m.eval(J).as_long()), dt
        return r, None, dt

    # ------------------------------------------------------------------ C07 Q2: operands ready
    def q_operand_not_ready(self, full_ops=None, full_lvl=None):
        """exists op i and operand k: the (stem-mapped) operand is neither the zero slot nor an interface input slot nor
        written by an op of a strictly earlier level."""
        if self.n < 1: return z3.unsat, None, 0.0
        so, ops = self.so, self.ops
        wlevel = [-1] * self.N                      # level in which a line / slot is written; 0 = interface input or constant zero
        for i in range(so.s_len): wlevel[so.ppi_offset + i] = 0
        wlevel[so.zero_idx] = 0
        for r, o in enumerate(ops if full_ops is None else full_ops):
            wlevel[self.stem[int(o[1])]] = int((self.lvl if full_lvl is None else full_lvl)[r])
        I, K = z3.Int('i'), z3.Int('k')
        cons = []
        LV, c0 = _tab('lvl', self.lvl); cons += c0
        OPL = []
        for k in range(4):
            f, c0 = _tab(f'opl{k}', [wlevel[self.stem[int(o[2 + k])]] for o in ops]); cons += c0; OPL.append(f)
        s = self.solver()
        s.add(cons)
        s.add(I >= 0, I < self.n)
        s.add(z3.Or([z3.Or(OPL[k](I) < 0, OPL[k](I) >= LV(I)) for k in range(4)]))
        t = time.time(); r = s.check(); dt = time.time() - t
        if r == z3.sat:
            m = s.model(); i = m.eval(I).as_long()
            return r, (i, [int(x) for x in ops[i][:6]], [wlevel[self.stem[int(x)]] for x in ops[i][2:6]], int(self.lvl[i])), dt
        return r, None, dt

    # ------------------------------------------------------------------ C08: liveness
    def live_ranges(self):
        """independent def / last-use analysis on the op list: {index: (first level live, last level live)}; pinned = live until 'infinity'"""
        so, ops = self.so, self.ops
        INF = 10 ** 6
        rng = {}
        for i, n in enumerate(ref2.s_nodes(self.c)):
            if any(l is not None for l in n.outs) or len(n.outs) > 0: rng[so.ppi_offset + i] = [0, INF]
        for x in (so.zero_idx, so.tmp_idx, so.tmp2_idx): rng[x] = [0, INF]
        for r, o in enumerate(ops):
            w = self.stem[int(o[1])]
            if w not in self.special:
                if w in rng: rng[w][0] = min(rng[w][0], int(self.lvl[r]))
                else: rng[w] = [int(self.lvl[r]), int(self.lvl[r])]
        for r, o in enumerate(ops):
            for k in range(4):
                x = self.stem[int(o[2 + k])]
                if x in rng: rng[x][1] = max(rng[x][1], int(self.lvl[r]))
        for n in ref2.s_nodes(self.c):                  # captured lines stay intact until results are read
            if len(n.ins) > 0 and n.ins[0] is not None:
                x = self.stem[n.ins[0].index]
                if x in rng: rng[x][1] = INF
        return rng

    def q_live_overlap(self):
        """exists x != y (distinct signals, not aliases of each other) simultaneously live with overlapping regions, or a live region outside [0, c_len)"""
        rng = self.live_ranges()
        idx = sorted(rng)
        if len(idx) < 1: return z3.unsat, None, 0.0
        X, Y = z3.Int('x'), z3.Int('y')
        cons = []
        LO, c0 = _tab('lo', [self.loc[i] for i in idx]); cons += c0
        CA, c0 = _tab('ca', [self.cap[i] for i in idx]); cons += c0
        D, c0 = _tab('d', [rng[i][0] for i in idx]); cons += c0
        U, c0 = _tab('u', [rng[i][1] for i in idx]); cons += c0
        s = self.solver()
        s.add(cons)
        n = len(idx)
        s.add(X >= 0, X < n)
        pair = z3.And(Y >= 0, Y < n, X != Y, D(X) <= U(Y), D(Y) <= U(X), LO(X) < LO(Y) + CA(Y), LO(Y) < LO(X) + CA(X))
        outside = z3.Or(LO(X) < 0, CA(X) <= 0, LO(X) + CA(X) > int(self.so.c_len))
        s.add(z3.Or(pair, outside))
        t = time.time(); r = s.check(); dt = time.time() - t
        if r == z3.sat:
            m = s.model(); x = idx[m.eval(X).as_long()]
            yv = m.eval(Y, model_completion=True).as_long()
            y = idx[yv] if 0 <= yv < n else None
            return r, {'x': x, 'y': y, 'x_region': (self.loc[x], self.cap[x]), 'y_region': (self.loc[y], self.cap[y]) if y is not None else None,
                       'x_live': rng[x], 'y_live': rng[y] if y is not None else None, 'c_len': int(self.so.c_len)}, dt
        return r, None, dt

    def alias_problems(self, c_caps_vec, c_caps_min):
        """finite assertions: stripped branch / output slot aliased exactly; capacities as requested"""
        so = self.so
        probs = []
        for l in range(self.nl):
            st = self.stem[l]
            if st != l and (self.loc[l], self.cap[l]) != (self.loc[st], self.cap[st]):
                probs.append(f'stripped branch line {l} at {(self.loc[l], self.cap[l])} is not aliased to its stem line {st} at {(self.loc[st], self.cap[st])}')
        for i, n in enumerate(ref2.s_nodes(self.c)):
            if len(n.ins) > 0 and n.ins[0] is not None:
                src = n.ins[0].index
                if (self.loc[so.ppo_offset + i], self.cap[so.ppo_offset + i]) != (self.loc[src], self.cap[src]):
                    probs.append(f'output slot of {n.name} at {(self.loc[so.ppo_offset + i], self.cap[so.ppo_offset + i])} is not aliased to its source line {src} at {(self.loc[src], self.cap[src])}')
        written = {self.stem[int(o[1])] for o in self.ops}
        for l in written:
            if l < self.nl:
                want = max(c_caps_min, int(c_caps_vec[l]))
                if self.cap[l] != want: probs.append(f'line {l} has capacity {self.cap[l]}, requested {want}')
        return probs
